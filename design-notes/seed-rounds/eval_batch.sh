#!/bin/bash
cd /verif
for id in "$@"; do
  for n in 1 2; do
    d=/tmp/seed11/out-$id
    [ -f $d/change$n.diff ] || continue
    python3 tools/seed_eval.py $id $d/change$n.diff $d/demo$n.py ${id}-r11s$n 2>&1 | tail -2
  done
done
