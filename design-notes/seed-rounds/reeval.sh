#!/bin/bash
# usage: reeval.sh name...   (re-confirm on the current /repo HEAD and run own + related checks)
cd /verif
for nm in "$@"; do
  prop=${nm%%-*}
  what=$(python3 -c "import json,sys; print(json.load(open('/tmp/seed11/meta11.json'))['$nm'][0])")
  needs=$(python3 -c "import json,sys; print(json.load(open('/tmp/seed11/meta11.json'))['$nm'][1])")
  checks=$(python3 -c "import json,sys; print(json.load(open('/tmp/seed11/meta11.json'))['$nm'][2])")
  python3 tools/seed_eval.py $prop seeded/$nm/patch.diff seeded/$nm/demo.py $nm --checks $checks --what "$what" --needs "$needs" 2>&1 | tail -2
done
