#!/bin/bash
# usage: recheck.sh NAME [checks]
cd /verif
for nm in "$@"; do
  prop=${nm%%-*}
  ./pv selftest --patch seeded/$nm/patch.diff --checks $prop 2>&1 | grep -E "^$nm|caught|MISSED" | head -1
done
