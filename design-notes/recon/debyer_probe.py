import sys, numpy as np
sys.path.insert(0,sys.argv[1])
import pyPRISM
import Debyer as D
dom = pyPRISM.Domain(dk=0.1,length=64)
rng=np.random.default_rng(0)
F,N=2,37
L=10.0
pos=rng.uniform(0,L,(F,N,3)); mol=rng.integers(0,4,N).astype(np.int64); box=np.repeat([[L,L,L]],F,axis=0)
def oracle(p1,p2,m1,m2,box,selfo,k):
    out=np.zeros_like(k)
    for f in range(p1.shape[0]):
        d=p1[f][:,None,:]-p2[f][None,:,:]
        d-=box[f]*np.round(d/box[f])
        r=np.sqrt((d**2).sum(-1))
        same=(m1[:,None]==m2[None,:])
        if selfo: same&=~np.eye(len(m1),dtype=bool)
        rr=r[same]
        s=(np.sin(k[:,None]*rr[None,:])/(k[:,None]*rr[None,:])).sum(1)
        n=len(m1) if selfo else len(m1)+len(m2)
        out+= (1.0 if selfo else 0.0)+s/n
    return out/p1.shape[0]
ref=oracle(pos,pos,mol,mol,box,True,dom.k)
for nt in [1,2,3,5,16,40]:
    o=D.Debyer(domain=dom,nthreads=nt).calculate(pos,pos,mol,mol,box,True)
    print(nt,np.abs(o-ref).max())
m1=np.arange(N)<15
ref=oracle(pos[:,m1],pos[:,~m1],mol[m1],mol[~m1],box,False,dom.k)
for nt in [1,2,3,5,16,40]:
    o=D.Debyer(domain=dom,nthreads=nt).calculate(pos[:,m1],pos[:,~m1],mol[m1],mol[~m1],box,False)
    print(nt,np.abs(o-ref).max())
