import warnings, numpy as np, sys
warnings.simplefilter('ignore')
import pyPRISM
# contact points: for grids and sigma "on grid" by System.check's tol (1e-6): is the coinciding grid point inside core?
tot=0;out=0;ex=[]
for dr in [0.1,0.05,0.025,0.01,0.2,0.25,0.125,0.5]:
    d=pyPRISM.Domain(length=1024,dr=dr)
    for m in range(1,200):
        sigma=round(m*dr,10)   # what a user types: e.g. 0.3, 1.2
        idx=np.argmin(np.abs(d.r-sigma))
        if abs(d.r[idx]-sigma)<1e-6:
            tot+=1
            U=pyPRISM.potential.HardSphere(sigma=sigma).calculate(d.r)
            if U[idx]==0.0:
                out+=1; ex.append((dr,sigma,repr(d.r[idx])))
print(tot,out,ex[:12])
# diameters pairs: sigma=(d1+d2)/2
for dr,d1,d2 in [(0.1,1.0,1.0),(0.1,1.0,1.4),(0.05,1.0,1.2),(0.1,1.0,5.0),(0.1,1.0,10.0),(0.25,1.0,1.5),(0.1,0.6,0.6),(0.05,1.0,1.0),(0.05,1.0,3.0)]:
    d=pyPRISM.Domain(length=1024,dr=dr)
    for s in [d1,(d1+d2)/2,d2]:
        idx=np.argmin(np.abs(d.r-s))
        print(dr,s,repr(d.r[idx]), 'core' if d.r[idx]<=s else 'OUTSIDE')
