import warnings, numpy as np
warnings.simplefilter('ignore')
import pyPRISM
fams={'gauss':(lambda r,a:np.exp(-a*r*r),lambda k,a:(np.pi/a)**1.5*np.exp(-k*k/(4*a))),
      'yukawa':(lambda r,a:np.exp(-a*r)/r,lambda k,a:4*np.pi/(k*k+a*a)),
      'expo':(lambda r,a:np.exp(-a*r),lambda k,a:8*np.pi*a/(k*k+a*a)**2),
      'sphere':(lambda r,a:(r<=a+1e-9)*1.0,lambda k,a:4*np.pi*(np.sin(k*a)-k*a*np.cos(k*a))/k**3)}
rmax=51.2
for name,(f,F) in fams.items():
    for a in ([0.5,2.0] if name!='sphere' else [1.0,2.5]):
        errs=[];vals=[]
        for dr in [0.1,0.05,0.025,0.0125]:
            L=int(round(rmax/dr)); d=pyPRISM.Domain(length=L,dr=dr)
            nk=40
            Fn=d.to_fourier(f(d.r,a))[:nk]; Fe=F(d.k[:nk],a)
            errs.append(np.abs(Fn-Fe).max()/np.abs(Fe).max()); vals.append(Fn)
            # backward: to_real(F exact)(r) vs f at fixed r: pick r=1.0*? index
            fr=d.to_real(F(d.k,a)); idx=[int(round(x/dr))-1 for x in (0.8,1.6,3.2)]
            eb=np.abs(fr[idx]-f(d.r[idx],a)).max()
            errs[-1]=(errs[-1],eb)
        rich=np.abs(2*vals[-1]-vals[-2]-Fe).max()/np.abs(Fe).max()
        print(name,a,' fwd rel err, bwd abs err per dr:',[('%.1e'%x,'%.1e'%y) for x,y in errs],'richardson fwd %.1e'%rich)
