import warnings, numpy as np, sys, time
warnings.simplefilter('ignore')
import pyPRISM
def hs(eta,L,dr):
    s=pyPRISM.System(['A'],kT=1.0)
    s.domain=pyPRISM.Domain(length=L,dr=dr)
    s.density['A']=6*eta/np.pi
    s.diameter['A']=1.0
    s.closure['A','A']=pyPRISM.closure.PercusYevick()
    s.potential['A','A']=pyPRISM.potential.HardSphere()
    s.omega['A','A']=pyPRISM.omega.SingleSite()
    p=s.createPRISM()
    res=p.solve(options={'disp':False})
    return s,p,res
def py_c(r,eta):
    l1=(1+2*eta)**2/(1-eta)**4; l2=-(1+eta/2)**2/(1-eta)**4
    return np.where(r<1, -(l1+6*eta*l2*r+0.5*eta*l1*r**3), 0.0)
for eta in [0.1,0.3,0.45]:
    for L,dr in [(256,0.1),(512,0.05),(1024,0.025),(2048,0.0125),(4096,0.00625)]:
        t=time.time()
        s,p,res=hs(eta,L,dr)
        g=pyPRISM.calculate.pair_correlation(p)['A','A']
        r=s.domain.r
        ic=np.argmin(np.abs(r-1.0))
        gc_exact=(1+eta/2)/(1-eta)**2
        S=pyPRISM.calculate.structure_factor(p)['A','A']
        S0=(1-eta)**4/(1+2*eta)**2
        # exact S(k) from analytic c(k): use numeric quad of py_c
        k=s.domain.k
        rr=np.linspace(0,1,20001)
        ck=np.array([4*np.pi*np.trapezoid(py_c(rr,eta)*rr*np.sin(kk*rr)/kk,rr) for kk in k[:40]])
        rho=6*eta/np.pi
        Sex=1/(1-rho*ck)
        c=s.domain.to_real(p.directCorr['A','A'])
        # compare c at fixed r=0.5 and r=1.5
        i05=np.argmin(np.abs(r-0.5)); i15=np.argmin(np.abs(r-1.5))
        print('eta',eta,'dr',dr,res.success,'g(contact idx)',g[ic],g[ic+1],'exact',round(gc_exact,4),'| S(k0)',S[0],'exact S0',round(S0,5),'max|S-Sex| first40',np.abs(S[:40]-Sex).max(),'| c(.5) err',c[i05]-py_c(r[i05],eta),'c(1.5)',c[i15],'t%.2f'%(time.time()-t))
