import warnings, numpy as np, sys, time
import pyPRISM
warnings.simplefilter('ignore')
for N in [5,10,20,50,100]:
    s=pyPRISM.System(['A'],kT=1.0)
    s.domain=pyPRISM.Domain(length=512,dr=0.1)
    s.density['A']=0.5; s.diameter['A']=1.0
    s.closure['A','A']=pyPRISM.closure.PercusYevick()
    s.potential['A','A']=pyPRISM.potential.HardSphere()
    s.omega['A','A']=pyPRISM.omega.Gaussian(sigma=1.0,length=N)
    p=s.createPRISM()
    y=p.cost(np.zeros(512))
    print(N,'omega[:3]',p.omega['A','A'][:3]/0.5,'finite',np.isfinite(y).all(),'|y|max',np.abs(y).max())
    for meth,opt in [('krylov',{'disp':False,'maxiter':200}),('krylov',{'disp':False,'maxiter':200,'line_search':'wolfe'}),('anderson',{'disp':False,'maxiter':2000}),('df-sane',{'disp':False,'maxiter':2000}),('hybr',{})]:
        try:
            t=time.time(); res=p.solve(method=meth,options=opt); print('   ',meth,opt.get('line_search',''),res.success,'%.1e'%np.abs(res.fun).max(),'t%.2f'%(time.time()-t))
        except Exception as e: print('   ',meth,'EXC',e)
