import warnings, numpy as np, sys, time, traceback, itertools, copy
warnings.simplefilter('ignore')
import pyPRISM
from pyPRISM.core.Space import Space
C=pyPRISM.calculate
def mk(rank=3):
    types=list('ABC')[:rank]
    s=pyPRISM.System(types,kT=1.3)
    s.domain=pyPRISM.Domain(length=256,dr=0.1)
    for t,r,d in zip(types,[0.1,0.2,0.15],[1.0,1.2,0.8]):
        s.density[t]=r; s.diameter[t]=d
    s.closure[types,types]=pyPRISM.closure.PercusYevick()
    s.potential[types,types]=pyPRISM.potential.HardSphere()
    s.potential['A','B']=pyPRISM.potential.Exponential(0.3,0.5)
    for t in types: s.omega[t,t]=pyPRISM.omega.Gaussian(sigma=1.0,length=4)
    for a,b in itertools.combinations(types,2): s.omega[a,b]=pyPRISM.omega.NoIntra()
    p=s.createPRISM(); res=p.solve(method='krylov',options={'disp':False,'maxiter':200,'line_search':'wolfe','fatol':1e-11})
    assert res.success
    return p
def val(x):
    if isinstance(x,pyPRISM.MatrixArray): return np.array(x.data)
    if isinstance(x,pyPRISM.PairTable): return {k:(None if v is None else np.array(v)) for (_,k,v) in x.iterpairs(full=True)}
    return x
def close(a,b):
    if isinstance(a,dict): return all((a[k] is None and b[k] is None) or np.allclose(a[k],b[k],rtol=1e-7,atol=1e-9,equal_nan=True) for k in a)
    return np.allclose(a,b,rtol=1e-7,atol=1e-9,equal_nan=True)
ops={'g':lambda p:C.pair_correlation(p),'S':lambda p:C.structure_factor(p),'Sn':lambda p:C.structure_factor(p,normalize=False),
     'B2':lambda p:C.second_virial(p),'B2n':lambda p:C.second_virial(p,extrapolate=False),'chi':lambda p:C.chi(p),'chik':lambda p:C.chi(p,extrapolate=False),
     'spin':lambda p:C.spinodal_condition(p),'psiH':lambda p:C.solvation_potential(p),'psiP':lambda p:C.solvation_potential(p,closure='PY'),
     'pmf':lambda p:C.pmf(p)}
def flip(name):
    def f(p):
        m=getattr(p,name); d=p.sys.domain
        (d.MatrixArray_to_fourier if m.space==Space.Real else d.MatrixArray_to_real)(m)
    return f
muts={'flipH':flip('totalCorr'),'flipC':flip('directCorr'),'flipW':flip('omega'),
 'resolve':lambda p:p.solve(guess=np.array(p.minimize_result.x),method='krylov',options={'disp':False,'maxiter':200,'line_search':'wolfe','fatol':1e-11})}
rank=int(sys.argv[1]) if len(sys.argv)>1 else 3
fresh=mk(rank)
ref={}
for k,f in ops.items():
    ref[k]=val(f(mk(rank)))
print('refs ok')
rng=np.random.default_rng(0)
bad={}
for trial in range(60):
    p=mk(rank)
    seq=[]
    for step in range(8):
        if rng.random()<0.35:
            m=rng.choice(list(muts)); 
            if m=='resolve' and p.omega.space!=Space.Fourier: continue
            seq.append(m)
            try: muts[m](p)
            except Exception as e:
                bad.setdefault((m,'EXC '+type(e).__name__+str(e)[:50]),tuple(seq)); break
        else:
            k=rng.choice(list(ops)); seq.append(k)
            try:
                v=val(ops[k](p))
                if not close(v,ref[k]): bad.setdefault((k,'MISMATCH'),tuple(seq))
            except Exception as e:
                bad.setdefault((k,'EXC '+type(e).__name__+str(e)[:50]),tuple(seq)); break
for k,v in bad.items(): print(k,v)
print('distinct failures',len(bad))
