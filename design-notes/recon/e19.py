import warnings, numpy as np, time, sys
warnings.simplefilter('ignore')
import pyPRISM
from pyPRISM.core.PRISM import PRISM
n=[0]
orig=PRISM.cost
def cost(self,x):
    n[0]+=1
    if n[0]>3000: raise RuntimeError('too many evals')
    return orig(self,x)
PRISM.cost=cost
s = pyPRISM.System(['A','B'])
s.domain = pyPRISM.Domain(dr=0.1,length=1024)
s.density['A'] = 0.1; s.density['B'] = 0.75
s.diameter[s.types] = 1.0
s.closure.setUnset(pyPRISM.closure.PercusYevick())
s.potential.setUnset(pyPRISM.potential.HardSphere(sigma=1.0))
s.omega['A','A'] = pyPRISM.omega.SingleSite(); s.omega['A','B'] = pyPRISM.omega.NoIntra(); s.omega['B','B'] = pyPRISM.omega.Gaussian(sigma=1.0,length=10000)
p=s.createPRISM()
t=time.time()
try:
    r=p.solve(options={'disp':False}); print('success',r.success,'nit',r.nit,'|F|',np.abs(r.fun).max(),'nfev',n[0],'t %.1f'%(time.time()-t))
except Exception as e: print('EXC',e,'nfev',n[0],'t %.1f'%(time.time()-t))
