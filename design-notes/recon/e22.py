import warnings, numpy as np, sys, time
warnings.simplefilter('ignore')
import pyPRISM
from scipy.integrate import quad
def solve(s,tight=True):
    p=s.createPRISM()
    ft={'fatol':1e-12} if tight else {}
    for meth,opt in [('krylov',{'disp':False,'maxiter':200,**ft}),('krylov',{'disp':False,'maxiter':200,'line_search':'wolfe',**ft}),('df-sane',{'disp':False,'maxiter':3000,**ft}),('anderson',{'disp':False,'maxiter':3000,**ft})]:
        try:
            r=p.solve(method=meth,options=opt)
            if r.success: return p,meth
        except Exception as e: pass
    return None,None
P=pyPRISM.potential; C=pyPRISM.closure
pots={'HS':lambda:P.HardSphere(),'HCLJ+':lambda:P.HardCoreLennardJones(0.8),'HCLJ-':lambda:P.HardCoreLennardJones(-0.8),'EXP':lambda:P.Exponential(0.7,0.5),'LJ':lambda:P.LennardJones(0.6),'LJcs':lambda:P.LennardJones(0.6,rcut=2.5,shift=True),'WCA':lambda:P.WeeksChandlerAndersen(1.0)}
def uref(name,r,s=1.0):
    if name=='HS': return np.where(r>s,0,np.inf)
    if name=='HCLJ+': return np.where(r>s,0.8*((s/r)**12-2*(s/r)**6),np.inf)
    if name=='HCLJ-': return np.where(r>s,-0.8*((s/r)**12-2*(s/r)**6),np.inf)
    if name=='EXP': return np.where(r>s,-0.7*np.exp(-(r-s)/0.5),np.inf)
    lj=lambda r,e:4*e*((s/r)**12-(s/r)**6)
    if name=='LJ': return lj(r,0.6)
    if name=='LJcs': return np.where(r>2.5,0,lj(r,0.6)-lj(2.5,0.6))
    if name=='WCA': rc=2**(1/6); return np.where(r>rc,0,lj(r,1.0)+1.0)
for kT in [1.0,2.5]:
  for name in pots:
    for cl in ['PY','HNC','MSA']:
        if cl=='MSA' and name in('LJ','LJcs','WCA'): pass
        vals=[]
        for dr in [0.1,0.05,0.025]:
            s=pyPRISM.System(['A'],kT=kT); s.domain=pyPRISM.Domain(length=int(round(25.6/dr)),dr=dr)
            s.density['A']=1e-7; s.diameter['A']=1.0
            s.closure['A','A']={'PY':C.PercusYevick,'HNC':C.HyperNettedChain,'MSA':lambda:C.MSA(apply_hard_core=True)}[cl]()
            s.potential['A','A']=pots[name](); s.omega['A','A']=pyPRISM.omega.SingleSite()
            p,m=solve(s)
            if p is None: vals.append(None); continue
            g=pyPRISM.calculate.pair_correlation(p)['A','A']; r=s.domain.r
            with np.errstate(all='ignore'):
                u=uref(name,r)/kT
                gex=np.exp(-u) if cl!='MSA' else np.where(r>1.0+1e-9,1-np.where(np.isfinite(u),u,0),0.0)
            eg=np.abs(g-gex).max()
            B2=pyPRISM.calculate.second_virial(p)['A','A']
            vals.append((eg,B2))
        # exact B2
        if cl!='MSA':
            f=lambda x: (np.exp(-float(uref(name,np.array([x]))[0])/kT)-1)*x*x
        else:
            def f(x):
                u=float(uref(name,np.array([x]))[0]); return (-1 if (x<=1.0) else -u/kT)*x*x
        pts=[1.0,2**(1/6),2.5]
        B2ex=-2*np.pi*sum(quad(f,a,b,limit=200)[0] for a,b in zip([0]+pts,pts+[25.6]))
        if None in vals: print(kT,name,cl,'noconv'); continue
        e=[abs(v[1]-B2ex)/abs(B2ex) for v in vals]
        R2=abs(2*vals[2][1]-vals[1][1]-B2ex)/abs(B2ex)
        print(kT,name,cl,'max|g-gex|',['%.1e'%v[0] for v in vals],'B2ex %.4f'%B2ex,'relerr',['%.1e'%x for x in e],'R2 %.1e'%R2)
