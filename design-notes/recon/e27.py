# Prototype: user-level spec -> (real system, reference model); C01 oracle with contact masking; yields
import warnings, numpy as np, sys, time, itertools, collections
warnings.simplefilter('ignore')
import pyPRISM
from pyPRISM.core.Space import Space
P=pyPRISM.potential; C=pyPRISM.closure; O=pyPRISM.omega
TOL=1e-6
def dense_T(N,dr):
    dk=np.pi/(dr*N); r=dr*np.arange(1,N+1); k=dk*np.arange(1,N+1); n=np.arange(N)
    S2=np.sin(np.pi*np.outer(n+1,2*n+1)/(2*N)); F=(4*np.pi*dr/k)[:,None]*S2*r[None,:]
    S3=2*np.sin(np.pi*np.outer(2*n+1,n+1)/(2*N)); S3[:,N-1]=(-1.0)**n
    B=(1/r)[:,None]*S3*(k*dk/(4*np.pi**2))[None,:]
    return r,k,F,B
# ---------- reference potentials/closures/omegas from spec dicts
def snap(s,r):
    i=np.argmin(np.abs(r-s)); return r[i] if abs(r[i]-s)<TOL else s
def u_ref(spec,r,sig):
    t=spec['t']; s=snap(spec.get('sigma') or sig,r); hv=spec.get('hv',1e6)
    with np.errstate(all='ignore'):
        if t=='HS': return np.where(r>s,0.0,hv)
        if t=='HCLJ': return np.where(r>s,spec['eps']*((s/r)**12-2*(s/r)**6),hv)
        if t=='EXP': return np.where(r>s,-spec['eps']*np.exp(-(r-s)/spec['alpha']),hv)
        lj=lambda x,e:4*e*((s/x)**12-(s/x)**6)
        if t=='LJ':
            u=lj(r,spec['eps'])
            if spec.get('rcut') is not None:
                if spec.get('shift'): u=u-lj(spec['rcut'],spec['eps'])
                u=np.where(r>spec['rcut'],0.0,u)
            return u
        if t=='WCA':
            rc=s*2**(1/6); return np.where(r>rc,0.0,lj(r,spec['eps'])-lj(rc,spec['eps']))
def mk_pot(spec):
    t=spec['t']; sg=spec.get('sigma')
    return {'HS':lambda:P.HardSphere(sigma=sg),'HCLJ':lambda:P.HardCoreLennardJones(spec['eps'],sigma=sg),'EXP':lambda:P.Exponential(spec['eps'],spec['alpha'],sigma=sg),
            'LJ':lambda:P.LennardJones(spec['eps'],sigma=sg,rcut=spec.get('rcut'),shift=spec.get('shift',False)),'WCA':lambda:P.WeeksChandlerAndersen(spec['eps'],sigma=sg)}[t]()
def c_ref(spec,r,gam,u,sig):
    t=spec['t']; hc=spec['hc']; s=snap(sig,r)
    with np.errstate(all='ignore'):
        out={'PY':lambda:(np.exp(-u)-1)*(1+gam),'HNC':lambda:np.exp(gam-u)-1-gam,'MSA':lambda:-u+0*gam,'MS':lambda:np.exp(np.sqrt(1+2*(gam-u))-1)-1-gam}[t]()
    if hc: out=np.where(r>s,out,-1-gam)
    return out
def mk_clo(spec):
    return {'PY':C.PercusYevick,'HNC':C.HyperNettedChain,'MSA':C.MSA,'MS':C.MS}[spec['t']](apply_hard_core=spec['hc'])
def w_ref(spec,k):
    t=spec['t']
    if t=='SS': return np.ones_like(k)
    if t=='NI': return np.zeros_like(k)
    if t=='ARR': return np.array(spec['w'])
    N=spec['N']; tt=np.arange(1,N)
    if t=='G': E=np.exp(-k*k*spec['s']**2/6)
    if t=='FJC': E=np.sin(k*spec['s'])/(k*spec['s'])
    if t in('G','FJC'): return 1+(2.0/N)*np.sum((N-tt)*E[:,None]**tt,axis=1)
    if t=='RING': return 1+np.sum(np.exp(-spec['s']**2*k[:,None]**2*tt*(N-tt)/(6.0*N)),axis=1)
def mk_om(spec):
    t=spec['t']
    return {'SS':lambda:O.SingleSite(),'NI':lambda:O.NoIntra(),'ARR':lambda:O.FromArray(spec['w']),'G':lambda:O.Gaussian(sigma=spec['s'],length=spec['N']),'FJC':lambda:O.FJC(length=spec['N'],l=spec['s']),'RING':lambda:O.GaussianRing(sigma=spec['s'],length=spec['N'])}[t]()
# ---------- spec generator
def gen(rng):
    rank=int(rng.choice([1,1,2,2,3])); types=list('ABC')[:rank]
    dr=float(rng.choice([0.05,0.1,0.1,0.2,0.25])); L=int(rng.choice([64,100,128,200,256]))
    mult=lambda lo,hi: float(round(rng.integers(int(lo/dr),int(hi/dr)+1)*dr,10))
    d={t:mult(0.6,1.6) for t in types}
    fam=rng.choice(['atomic','polymer','mixed'])
    eta=float(10**rng.uniform(-3,np.log10(0.4))); w=rng.dirichlet(np.ones(rank))
    rho={t:float(6*eta*wi/np.pi/d[t]**3) for t,wi in zip(types,w)}
    kT=float(rng.choice([0.6,1.0,1.0,2.0,5.0]))
    pot={};clo={};om={}
    for a,b in itertools.combinations_with_replacement(types,2):
        pt=rng.choice(['HS','HS','HCLJ','EXP','LJ','WCA'])
        eps=float(rng.uniform(0.05,0.5))
        ps={'t':str(pt)}
        if pt=='HCLJ': ps['eps']=eps*float(rng.choice([-1,1]))
        if pt=='EXP': ps['eps']=eps*float(rng.choice([-1,1])); ps['alpha']=float(rng.uniform(0.2,1.0))
        if pt=='LJ': ps['eps']=eps; ps.update(rng.choice([{}, {'rcut':2.5*(d[a]+d[b])/2,'shift':True},{'rcut':2.0*(d[a]+d[b])/2,'shift':False}]))
        if pt=='WCA': ps['eps']=eps*2
        hard=pt in('HS','HCLJ','EXP')
        ct=rng.choice(['PY','PY','HNC','MSA','MS'] )
        hc=bool(rng.random()<0.5) if ct in('PY','HNC') else True
        pot[a,b]=ps; clo[a,b]={'t':str(ct),'hc':hc}
    for t in types:
        if fam=='atomic' or (fam=='mixed' and rng.random()<0.5): om[t,t]={'t':'SS'}
        else: om[t,t]={'t':str(rng.choice(['G','FJC','RING'])),'N':int(rng.choice([2,3,5,10,30,100])),'s':d[t]}
    for a,b in itertools.combinations(types,2): om[a,b]={'t':'NI'}
    return dict(types=types,dr=dr,L=L,d=d,rho=rho,kT=kT,pot=pot,clo=clo,om=om,fam=str(fam))
def build(sp):
    s=pyPRISM.System(sp['types'],kT=sp['kT']); s.domain=pyPRISM.Domain(length=sp['L'],dr=sp['dr'])
    for t in sp['types']: s.density[t]=sp['rho'][t]; s.diameter[t]=sp['d'][t]
    for (a,b),ps in sp['pot'].items(): s.potential[a,b]=mk_pot(ps)
    for (a,b),cs in sp['clo'].items(): s.closure[a,b]=mk_clo(cs)
    for (a,b),os_ in sp['om'].items(): s.omega[a,b]=mk_om(os_)
    return s
METHODS=[('krylov',{}),('krylov',{'line_search':'wolfe'}),('df-sane',{}),('anderson',{}),('broyden1',{})]
def check(sp,p,res):
    L=sp['L'];dr=sp['dr'];types=sp['types'];rank=len(types)
    r,k,F,B=dense_T(L,dr)
    rho=np.array([sp['rho'][t] for t in types]); pair=rho[:,None]*rho[None,:]; site=np.where(np.eye(rank,dtype=bool),np.diag(rho),rho[:,None]+rho[None,:])
    h=np.array(p.totalCorr.data); Ck=np.array(p.directCorr.data); W=np.array(p.omega.data)
    assert p.totalCorr.space==Space.Real and p.directCorr.space==Space.Fourier
    Hk=np.einsum('jn,nab->jab',F,h)*pair
    rhs=W@Ck@(W+Hk); e1=np.abs(Hk-rhs).max()/(1+np.abs(rhs).max())
    cr=np.einsum('nj,jab->nab',B,Ck); Y=res.fun.reshape(L,rank,rank)
    gin=(h-cr)-Y/r[:,None,None]; gin2=res.x.reshape(L,rank,rank)/r[:,None,None]
    e2=e2b=e3=0
    for i,a in enumerate(types):
        for j,b in enumerate(types):
            if i<=j:
                sig=(sp['d'][a]+sp['d'][b])/2
                u=u_ref(sp['pot'][a,b],r,sig)/sp['kT']
                mask=np.abs(r-sig)>=TOL   # contact masking
                for g,slot in ((gin,0),(gin2,1)):
                    cref=c_ref(sp['clo'][a,b],r,g[:,i,j],u,sig)
                    with np.errstate(all='ignore'): dd=np.abs(cref-cr[:,i,j])[mask]/(1+np.abs(cr[:,i,j]).max())
                    v=np.nanmax(dd) if np.isfinite(dd).any() else np.inf
                    if slot==0: e2=max(e2,v)
                    else: e2b=max(e2b,v)
                wref=w_ref(sp['om'][(a,b)],k)*site[i,j]
                e3=max(e3,np.abs(W[:,i,j]-wref).max()/max(1,np.abs(wref).max()))
    return e1,e2,e2b,e3
if __name__=='__main__':
    seed=int(sys.argv[1]) if len(sys.argv)>1 else 0; n=int(sys.argv[2]) if len(sys.argv)>2 else 150
    rng=np.random.default_rng(seed)
    stats=collections.Counter(); worst=[0,0,0,0]; t0=time.time(); ms=collections.Counter()
    for it in range(n):
        sp=gen(rng); s=build(sp)
        try: p=s.createPRISM()
        except Exception as e: stats['createfail:'+type(e).__name__]+=1; continue
        ok=False
        for meth,o in METHODS:
            opt={'disp':False,'maxiter':150 if meth in('krylov',) else 1500}; opt.update(o)
            try: res=p.solve(method=meth,options=opt)
            except Exception as e: stats['solveexc:'+type(e).__name__]+=1; continue
            if res.success: ok=True; break
        if not ok: stats['unconverged']+=1; stats['unconv:'+sp['fam']]+=1; continue
        stats['converged']+=1; stats['conv:'+sp['fam']]+=1; ms[meth+str(o)]+=1
        for cs in sp['clo'].values(): stats['clo:'+cs['t']+('hc' if cs['hc'] else '')]+=1
        e=check(sp,p,res)
        clo_types={c['t'] for c in sp['clo'].values()}
        tag='MS' if 'MS' in clo_types else 'noMS'
        if e[1]>1e-9 or e[0]>1e-9 or e[3]>1e-6:
            stats['FLAG:'+tag]+=1
            if stats['FLAG:'+tag]<=4: print('FLAG',tag,meth,o,['%.1e'%x for x in e],sp['fam'],sp['L'],sp['dr'],{k:v['t']+('hc' if v['hc'] else '') for k,v in sp['clo'].items()},{k:v['t'] for k,v in sp['pot'].items()})
        if tag=='noMS': worst=[max(a,b) for a,b in zip(worst,e)]
    print('time %.1f'%(time.time()-t0)); print(dict(stats)); print(dict(ms)); print('worst noMS',['%.1e'%x for x in worst])
