import warnings, numpy as np
warnings.simplefilter('ignore')
import pyPRISM
k=np.array([1e-3,0.01,0.1,0.5,1.0,2.0,3.0,5.0,8.0,13.0,20.0,40.0])
sinc=np.sin(k)/k
J2=(1-np.cos(k))/(2*k*k); B2=1/(1-0.25)
w2=B2*(sinc**2-J2)
ref3=1+(2/3)*(2*sinc+1*w2)
v=pyPRISM.omega.NFJC(length=3,l=1.0).calculate(k)
print(np.abs(v-ref3).max(), v[:3], ref3[:3])
# N=4 needs w3: W3(r)=1/(8 pi) for r<1  => J3(k)=4pi*int_0^1 (1/(8pi)) r^2 sinc(kr) dr = (1/2)*(sin k - k cos k)/k^3
J3=0.5*(np.sin(k)-k*np.cos(k))/k**3; B3=1/(1-1/6)
w3=B3*(sinc**3-J3)
ref4=1+(2/4)*(3*sinc+2*w2+1*w3)
v=pyPRISM.omega.NFJC(length=4,l=1.0).calculate(k)
print(np.abs(v-ref4).max())
