import warnings, numpy as np
warnings.simplefilter('ignore')
import pyPRISM
kB=1.380649e-23; NA=6.02214076e23
L={'nm':1e-9,'angstrom':1e-10,'m':1.0,'um':1e-6,'pm':1e-12}
Eu={'kilojoule/mole':(1e3,True),'kcal/mol':(4184.0,True),'J/mol':(1.0,True),'J':(1.0,False),'eV':(1.602176634e-19,False)}
bad=0
for du,dl in L.items():
    for eu,(ej,molar) in Eu.items():
        dc=1.7; ec=3.3 if molar else 4.1e-21/ej
        uc=pyPRISM.util.UnitConverter(dc=dc,dc_unit=du,ec=ec,ec_unit=eu)
        T=np.array([0.5,1.0,2.0])
        exp=T*ec*ej/(kB*(NA if molar else 1))
        got=uc.toKelvin(T).magnitude
        ok1=np.allclose(got,exp,rtol=1e-9)
        ok2=np.allclose(uc.toCelcius(T).magnitude,exp-273.15,rtol=1e-9)
        k=np.array([0.1,1.0]); ok3=np.allclose(uc.toInvAngstrom(k).magnitude,k/(dc*dl/1e-10),rtol=1e-9) and np.allclose(uc.toInvNanometer(k).magnitude,k/(dc*dl/1e-9),rtol=1e-9)
        rho=np.array([0.1,0.8]); ok4=np.allclose(uc.toConcentration(rho).magnitude,rho/((dc*dl*10)**3*NA),rtol=1e-9)
        ok5=np.allclose(uc.toVolumeFraction(rho,1.3).magnitude,rho*np.pi*1.3**3/6,rtol=1e-12)
        if not all([ok1,ok2,ok3,ok4,ok5]): bad+=1; print(du,eu,ok1,ok2,ok3,ok4,ok5)
print('unit combos bad',bad)
# Koyama curvature
for N,lp,l,sig in [(10,1.43,1.0,1.0),(30,3.0,1.0,1.0),(20,2.0,1.2,1.0)]:
    o=pyPRISM.omega.DiscreteKoyama(sigma=sig,l=l,length=N,lp=lp)
    a=1-l/lp
    r2=lambda n: n*l*l*((1+a)/(1-a)-(2*a/n)*(1-a**n)/(1-a)**2)
    S=sum((N-n)*r2(n) for n in range(1,N))
    k=np.array([1e-3,2e-3,4e-3])
    w=o.calculate(k)
    print(N,lp,'curvature ratio',(N-w)/(k*k*S/(3*N)))
