import warnings, numpy as np, sys, time
warnings.simplefilter('ignore')
import pyPRISM
exec(open('e23.py').read().split("for N,Na,rho in")[0])
for eps in [0.0,0.2]:
  for N,Na,rho in [(50,25,0.3),(20,10,0.5),(8,4,0.6)]:
    Nb=N-Na
    s1=base(['A'],[rho],eps=eps); s1.omega['A','A']=pyPRISM.omega.Gaussian(sigma=1.0,length=N)
    p1,m1,r1=solve(s1)
    k=s1.domain.k; E=np.exp(-k*k/6.0)
    blk=lambda n: 1+(2.0/n)*sum((n-t)*E**t for t in range(1,n))
    cross=sum(E**(j-i) for i in range(Na) for j in range(Na,N))/(Na+Nb)
    # consistency: (Na*blk(Na)+Nb*blk(Nb)+2*(N)*cross)/N == blk(N)
    print('omega consistency',np.abs((Na*blk(Na)+Nb*blk(Nb)+2*N*cross)/N-blk(N)).max(), 'Gaussian vs blk(N)',np.abs(s1.omega['A','A'].calculate(k)-blk(N)).max())
    s2=base(['A','B'],[rho*Na/N,rho*Nb/N],eps=eps)
    s2.omega['A','A']=pyPRISM.omega.FromArray(blk(Na)); s2.omega['B','B']=pyPRISM.omega.FromArray(blk(Nb)); s2.omega['A','B']=pyPRISM.omega.FromArray(cross)
    p2=s2.createPRISM()
    x1=p1.minimize_result.x.reshape(-1,1,1)
    guess=np.tile(x1,(1,2,2)).ravel()
    y=p2.cost(guess)
    print(eps,N,'cost of homopolymer solution in split system: %.2e'%np.abs(y).max())
    p2b,m2,r2=solve(s2)
    g1=pyPRISM.calculate.pair_correlation(p1)['A','A']; g2=pyPRISM.calculate.pair_correlation(p2b)
    print('   zero-guess split solve',m2,'%.1e'%r2,['%.1e'%np.abs(g2[a,b]-g1).max() for a,b in [('A','A'),('A','B'),('B','B')]], 'min g1 %.3f min g2 %.3f'%(g1.min(),g2['A','A'].min()))
