import warnings, numpy as np, sys, os, tempfile
warnings.simplefilter('ignore')
import pyPRISM
d=pyPRISM.Domain(length=64,dr=0.1); k=d.k
tmp=tempfile.mkdtemp()
def wfile(name,cols):
    p=os.path.join(tmp,name); 
    with open(p,'w') as f:
        for row in zip(*cols): f.write(' '.join(repr(float(x)) for x in row)+'\n')
    return p
w=np.random.default_rng(0).uniform(0.5,3,64)
def stage(om,rank1=True):
    try: v=om.calculate(k)
    except Exception as e: return 'raise@calculate:'+type(e).__name__,None
    s=pyPRISM.System(['A']); s.domain=d; s.density['A']=0.1; s.diameter['A']=1.0
    s.closure['A','A']=pyPRISM.closure.PercusYevick(); s.potential['A','A']=pyPRISM.potential.HardSphere(); s.omega['A','A']=om
    try: p=s.createPRISM()
    except Exception as e: return 'raise@createPRISM:'+type(e).__name__,v
    try: p.cost(np.zeros(64))
    except Exception as e: return 'raise@cost:'+type(e).__name__,v
    return 'ok',v
FA=pyPRISM.omega.FromArray; FF=pyPRISM.omega.FromFile
cases={'arr match':FA(w),'arr short':FA(w[:-1]),'arr long':FA(np.r_[w,1.0]),'arr+k match':FA(w,k),'arr+k shifted':FA(w,k+0.01),'arr+k 1pt':FA(w,np.r_[k[:30],k[30]*1.001,k[31:]]),'arr+k within':FA(w,k*(1+1e-9)),
 'f1 match':FF(wfile('a',[w])),'f1 short':FF(wfile('b',[w[:-1]])),'f1 long':FF(wfile('c',[np.r_[w,1.0]])),'f1 len1':FF(wfile('c1',[w[:1]])),'f2 match':FF(wfile('d',[k,w])),'f2 short':FF(wfile('e',[k[:-1],w[:-1]])),'f2 rescaled':FF(wfile('f',[k*1.01,w])),'f2 1pt':FF(wfile('g',[np.r_[k[:30],k[30]*1.001,k[31:]],w]))}
for n,om in cases.items():
    st,v=stage(om)
    print(n,st, None if v is None or st!='ok' else bool(np.array_equal(v,w)))
a=w.copy(); om=FA(a); a[:]=0; print('alias leak', not np.array_equal(om.calculate(k),w))
# PairTable isolation
class V: 
    def __init__(s,i): s.i=i; s.payload=[i]
pt=pyPRISM.PairTable(['A','B','C'],'t'); v=V(1); pt[['A','B'],['A','B','C']]=v
objs={(a,b):pt[a,b] for a in 'ABC' for b in 'ABC'}
print('AB is BA',objs['A','B'] is objs['B','A'],'AA is AB',objs['A','A'] is objs['A','B'],'caller',any(o is v for o in objs.values()), 'CC',objs['C','C'])
