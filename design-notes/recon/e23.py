import warnings, numpy as np, sys, time
warnings.simplefilter('ignore')
import pyPRISM
def solve(s):
    p=s.createPRISM()
    for meth,opt in [('krylov',{'disp':False,'maxiter':200,'fatol':1e-12}),('krylov',{'disp':False,'maxiter':200,'line_search':'wolfe','fatol':1e-12}),('df-sane',{'disp':False,'maxiter':5000,'fatol':1e-12}),('anderson',{'disp':False,'maxiter':5000,'fatol':1e-12})]:
        try:
            r=p.solve(method=meth,options=opt)
            if r.success: return p,meth,np.abs(r.fun).max()
        except Exception as e: pass
    return None,None,None
def base(types,rhos,eps=0.2,L=512,dr=0.1):
    s=pyPRISM.System(types,kT=1.0); s.domain=pyPRISM.Domain(length=L,dr=dr)
    for t,r in zip(types,rhos): s.density[t]=r
    s.diameter[types]=1.0
    s.closure[types,types]=pyPRISM.closure.PercusYevick()
    s.potential[types,types]=pyPRISM.potential.HardCoreLennardJones(eps)
    return s
for N,Na,rho in [(20,8,0.5),(7,3,0.7),(50,25,0.3),(100,10,0.6)]:
    Nb=N-Na
    s1=base(['A'],[rho]); s1.omega['A','A']=pyPRISM.omega.Gaussian(sigma=1.0,length=N)
    p1,m1,r1=solve(s1)
    k=s1.domain.k; E=np.exp(-k*k/6.0)
    blk=lambda n: 1+(2.0/n)*sum((n-t)*E**t for t in range(1,n))
    cross=sum(E**(j-i) for i in range(Na) for j in range(Na,N))/(Na+Nb)
    s2=base(['A','B'],[rho*Na/N,rho*Nb/N])
    s2.omega['A','A']=pyPRISM.omega.FromArray(blk(Na)); s2.omega['B','B']=pyPRISM.omega.FromArray(blk(Nb)); s2.omega['A','B']=pyPRISM.omega.FromArray(cross)
    p2,m2,r2=solve(s2)
    if p1 is None or p2 is None: print(N,Na,rho,'noconv',m1,m2); continue
    g1=pyPRISM.calculate.pair_correlation(p1)['A','A']; g2=pyPRISM.calculate.pair_correlation(p2)
    print(N,Na,rho,m1,m2,'res %.1e %.1e'%(r1,r2),'diffs',['%.1e'%np.abs(g2[a,b]-g1).max() for a,b in [('A','A'),('A','B'),('B','B')]])
