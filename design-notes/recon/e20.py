import warnings, numpy as np, sys, itertools, inspect
warnings.simplefilter('ignore')
sys.path.insert(0,'/tmp/depstest')
import pyPRISM, icontract
from pyPRISM.core import PRISM as PM
# 1. failpoints via sys.monitoring
class Injected(Exception): pass
mon=sys.monitoring; TOOL=3
mon.use_tool_id(TOOL,'pvmon')
code=PM.PRISM.__init__.__code__
lines=sorted({l for (_,_,l) in code.co_lines() if l and l>code.co_firstlineno})
target=[None]
def cb(c,line):
    if c is code and line==target[0]:
        raise Injected(line)
    return mon.DISABLE if c is not code else None
mon.register_callback(TOOL,mon.events.LINE,cb)
mon.set_local_events(TOOL,code,mon.events.LINE)
def mk():
    s=pyPRISM.System(['A','B']); s.domain=pyPRISM.Domain(length=64,dr=0.1)
    s.density['A']=0.1; s.density['B']=0.2; s.diameter[['A','B']]=1.0
    s.closure[['A','B'],['A','B']]=pyPRISM.closure.PercusYevick(); s.potential[['A','B'],['A','B']]=pyPRISM.potential.HardSphere()
    s.omega['A','A']=pyPRISM.omega.SingleSite(); s.omega['B','B']=pyPRISM.omega.SingleSite(); s.omega['A','B']=pyPRISM.omega.NoIntra()
    return s
s=mk(); hit=0
for l in lines:
    target[0]=l
    try: s.createPRISM()
    except Injected: hit+=1
    assert s.potential['A','A'].sigma is None
target[0]=None
p=s.createPRISM()
print('failpoint lines',len(lines),'fired',hit)
mon.set_local_events(TOOL,code,0); mon.free_tool_id(TOOL)
# 3. write-protect replica locates the offending line
p.solve(options={'disp':False,'maxiter':50})
p.omega.data.flags.writeable=False
try:
    pyPRISM.calculate.spinodal_condition(p)
    print('no write detected')
except ValueError as e:
    import traceback; tb=traceback.extract_tb(e.__traceback__)[-1]; print('write detected at',tb.filename.split('/')[-1],tb.lineno,tb.line)
# 2. icontract invariant on Density
class InvBroken(Exception): pass
def derived_ok(self):
    for a in self.types:
        for b in self.types:
            ra,rb=self.density[a],self.density[b]
            if ra is None or rb is None: continue
            if not np.isclose(self.pair[a,b][0],ra*rb): return False
            if not np.isclose(self.site[a,b][0],ra if a==b else ra+rb): return False
    return True
D=icontract.invariant(derived_ok,error=InvBroken)(pyPRISM.core.Density.Density)
print(D is pyPRISM.Density)
s=pyPRISM.System(['A','B','C']); s.density['B']=0.3; s.density[['A','C']]=0.1; s.density['B']=0.5; print('density invariant ok', s.density.site['A','B'])
