import warnings, numpy as np, sys, time, traceback
warnings.simplefilter('ignore')
import pyPRISM
print(pyPRISM.__file__)
k=np.concatenate([[1e-4,1e-3,1e-2],pyPRISM.Domain(length=64,dr=0.1).k,[100.,1000.]])
for N,lp in [(5,1.43),(20,1.43),(20,4/3*1.0005),(20,3.0),(50,2.0)]:
    t=time.time()
    o=pyPRISM.omega.DiscreteKoyama(sigma=1.0,l=1.0,length=N,lp=lp)
    v=o.calculate(k); print('Koyama',N,lp,'eps',o.epsilon,v[:4], v[-2:], 'max',v.max(),'t%.2f'%(time.time()-t))
for N in [2,3,5,10]:
    t=time.time()
    o=pyPRISM.omega.NFJC(length=N,l=1.0)
    v=o.calculate(k); print('NFJC',N,v[:4],v[-2:],'max',v.max(),'t%.2f'%(time.time()-t))
    f=pyPRISM.omega.FJC(length=N,l=1.0).calculate(k); print('   FJC',f[:4],f[-2:])
