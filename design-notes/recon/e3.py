import warnings, numpy as np, sys, time
warnings.simplefilter('ignore')
import pyPRISM
from pyPRISM.core.PRISM import PRISM
calls=[]
orig=PRISM.cost
def cost(self,x):
    calls.append(np.array(x,copy=True))
    return orig(self,x)
PRISM.cost=cost
def hs(eta,L=1024,dr=0.05,closure=None,method='krylov',options=None):
    s=pyPRISM.System(['A'],kT=1.0)
    s.domain=pyPRISM.Domain(length=L,dr=dr)
    s.density['A']=6*eta/np.pi
    s.diameter['A']=1.0
    s.closure['A','A']=closure or pyPRISM.closure.PercusYevick()
    s.potential['A','A']=pyPRISM.potential.HardSphere()
    s.omega['A','A']=pyPRISM.omega.SingleSite()
    p=s.createPRISM()
    calls.clear()
    t=time.time()
    res=p.solve(method=method,options=options or {'disp':False})
    return p,res,time.time()-t
for method in ['krylov','hybr','lm','broyden1','anderson','df-sane','diagbroyden','excitingmixing','linearmixing','broyden2']:
    try:
        p,res,t=hs(0.3,L=256,dr=0.05,method=method)
        print(method,'success',res.success,'nfev',len(calls),'t %.2f'%t,'|F|max',np.abs(res.fun).max(),'last x == res.x',np.array_equal(calls[-1],res.x), 'stored x == res.x', np.array_equal(p.x,res.x), 'max|stored-res|',np.abs(p.x-res.x).max())
    except Exception as e:
        print(method,'EXC',type(e).__name__,e)
