import warnings, numpy as np, sys, time
warnings.simplefilter('ignore')
import pyPRISM
opt={'disp':False,'fatol':1e-11,'maxiter':500}
def base(types,rhos,N=20,eps=0.1,kT=1.0,scale=1.0,L=512,dr=0.05,omegas=None):
    s=pyPRISM.System(types,kT=kT*scale)
    s.domain=pyPRISM.Domain(length=L,dr=dr)
    for t,r in zip(types,rhos): s.density[t]=r
    s.diameter[types]=1.0
    s.closure[types,types]=pyPRISM.closure.PercusYevick()
    s.potential[types,types]=pyPRISM.potential.HardCoreLennardJones(eps*scale)
    return s
# unsplit homopolymer melt
N=20; rho=0.25
s1=base(['A'],[rho]); s1.omega['A','A']=pyPRISM.omega.Gaussian(sigma=1.0,length=N)
p1=s1.solve(options=opt); g1=pyPRISM.calculate.pair_correlation(p1)['A','A']
print('res1',np.abs(p1.minimize_result.fun).max(),p1.minimize_result.success)
# split as labelled A/A' on same chain: each chain has N sites; fraction f labelled A randomly? -> use diblock: first Na sites A, rest B
Na=8; Nb=N-Na
k=s1.domain.k
E=np.exp(-k*k/6.0)
def block(n): # sum_{i,j in block} E^|i-j|
    return n + 2*sum((n-t)*E**t for t in range(1,n))
def cross(na,nb): # sum_{i in A, j in B} E^{|i-j|}
    return sum(E**(j-i) for i in range(na) for j in range(na,na+nb))
wAA=block(Na)/Na; wBB=block(Nb)/Nb; wAB=2*cross(Na,Nb)/(Na+Nb)   # pyPRISM convention? omega_AB = (1/(Na+Nb)) sum_{i in A,j in B} + sum_{i in B, j in A}
for conv,wab in [('2x/(Na+Nb)',2*cross(Na,Nb)/(Na+Nb)),('1x/(Na+Nb)',cross(Na,Nb)/(Na+Nb))]:
    s2=base(['A','B'],[rho*Na/N,rho*Nb/N])
    s2.omega['A','A']=pyPRISM.omega.FromArray(wAA); s2.omega['B','B']=pyPRISM.omega.FromArray(wBB); s2.omega['A','B']=pyPRISM.omega.FromArray(wab)
    p2=s2.solve(options=opt)
    g2=pyPRISM.calculate.pair_correlation(p2)
    print(conv,'res2',np.abs(p2.minimize_result.fun).max(),p2.minimize_result.success,'max|gAA-g|',np.abs(g2['A','A']-g1).max(),'AB',np.abs(g2['A','B']-g1).max(),'BB',np.abs(g2['B','B']-g1).max())
# monatomic split
s3=base(['A'],[0.4]); s3.omega['A','A']=pyPRISM.omega.SingleSite(); p3=s3.solve(options=opt); g3=pyPRISM.calculate.pair_correlation(p3)['A','A']
s4=base(['A','B'],[0.1,0.3]); s4.omega['A','A']=pyPRISM.omega.SingleSite(); s4.omega['B','B']=pyPRISM.omega.SingleSite(); s4.omega['A','B']=pyPRISM.omega.NoIntra(); p4=s4.solve(options=opt); g4=pyPRISM.calculate.pair_correlation(p4)
print('mono split',[np.abs(g4[a,b]-g3).max() for a,b in [('A','A'),('A','B'),('B','B')]])
# energy scale
s5=base(['A'],[0.4],scale=3.7); s5.omega['A','A']=pyPRISM.omega.SingleSite(); p5=s5.solve(options=opt); g5=pyPRISM.calculate.pair_correlation(p5)['A','A']
print('scale',np.abs(g5-g3).max())
w3=pyPRISM.calculate.pmf(p3)['A','A']; w5=pyPRISM.calculate.pmf(p5)['A','A']
m=g3>1e-3
print('pmf scale', np.abs(w5[m]-3.7*w3[m]).max())
# permutation
s6=base(['B','A'],[0.3,0.1]); s6.omega['A','A']=pyPRISM.omega.SingleSite(); s6.omega['B','B']=pyPRISM.omega.SingleSite(); s6.omega['A','B']=pyPRISM.omega.NoIntra(); p6=s6.solve(options=opt); g6=pyPRISM.calculate.pair_correlation(p6)
print('perm',[np.abs(g4[a,b]-g6[a,b]).max() for a,b in [('A','A'),('A','B'),('B','B')]])
