import warnings, numpy as np, sys
warnings.simplefilter('ignore')
import pyPRISM
# 1. arange length issue
bad=[]
rng=np.random.default_rng(1)
cands=[(dr,L) for dr in [0.1,0.05,0.025,0.01,0.2,0.25,0.3,0.7,0.001,0.15,1/3,0.07] for L in list(range(1,300))+[512,1000,1024,2048,4096,1023,100,8192,16384]]
for dr,L in cands:
    d=pyPRISM.Domain(length=L,dr=dr)
    if len(d.r)!=L or len(d.k)!=L: bad.append((dr,L,len(d.r),len(d.k)))
print('bad grid sizes',len(bad),'of',len(cands)); print(bad[:20])
bad=[]
for dk,L in cands:
    d=pyPRISM.Domain(length=L,dk=dk)
    if len(d.r)!=L or len(d.k)!=L: bad.append((dk,L,len(d.r),len(d.k)))
print('bad grid sizes (dk)',len(bad)); print(bad[:20])
# random
bad=[]
for _ in range(20000):
    dr=float(10**rng.uniform(-3,0.3)); L=int(rng.integers(1,3000))
    r = np.arange(dr,dr*(L+1),dr)
    if len(r)!=L: bad.append((dr,L,len(r)))
print('random bad',len(bad),bad[:5])
# 2. length setter staleness
d=pyPRISM.Domain(length=1024,dr=0.1); d.length=2048
f=pyPRISM.Domain(length=2048,dr=0.1)
print('dk stale?',d.dk,f.dk, len(d.k), d.k[-1], f.k[-1])
x=np.exp(-d.r**2)
print('roundtrip err after length set',np.abs(d.to_real(d.to_fourier(x))-x).max())
