import warnings, numpy as np, sys, time
warnings.simplefilter('ignore')
import pyPRISM
def melt(rho,N,L=2048,dr=0.1,opt=None,guess=None,om='G'):
    s=pyPRISM.System(['A'],kT=1.0)
    s.domain=pyPRISM.Domain(length=L,dr=dr)
    s.density['A']=rho; s.diameter['A']=1.0
    s.closure['A','A']=pyPRISM.closure.PercusYevick()
    s.potential['A','A']=pyPRISM.potential.HardSphere()
    s.omega['A','A']=pyPRISM.omega.Gaussian(sigma=1.0,length=N) if om=='G' else pyPRISM.omega.FJC(l=1.0,length=N)
    p=s.createPRISM()
    t=time.time()
    res=p.solve(guess=guess,options=opt)
    return p,res,time.time()-t
for (L,dr) in [(2048,0.1),(512,0.1),(256,0.1)]:
  for rho in [0.1,0.25,0.5,0.8]:
    for N in [5,100]:
        p,res,t=melt(rho,N,L,dr,opt={'disp':False,'maxiter':100})
        p2,res2,t2=melt(rho,N,L,dr,opt={'disp':False,'fatol':1e-11,'maxiter':100})
        print(L,dr,rho,N,res.success,'%.1e'%np.abs(res.fun).max(),res.nit,'t%.2f'%t,'| tight',res2.success,'%.1e'%np.abs(res2.fun).max(),res2.nit,'t%.2f'%t2,flush=True)
