import warnings, numpy as np, sys, time, traceback
warnings.simplefilter('ignore')
import pyPRISM
uc=pyPRISM.util.UnitConverter(dc=1.5,dc_unit='nm')
for name,args in [('toKelvin',(1.0,)),('toCelcius',(1.0,)),('toInvAngstrom',(np.array([1.0,2.0]),)),('toInvNanometer',(1.0,)),('toConcentration',(0.5,)),('toVolumeFraction',(0.5,1.0))]:
    try:
        v=getattr(uc,name)(*args); print(name,repr(v))
    except Exception as e:
        print(name,'EXC',type(e).__name__,str(e)[:100])
print(repr(uc.pint('pi')), repr((0.5*uc.pint('pi')).to('dimensionless')))
kB=1.380649e-23; NA=6.02214076e23
print('T expected',2.48e3/(kB*NA))
print('c expected mol/L', 0.5/((1.5e-8)**3*NA)/1.0 , ' (dm: 1.5nm=1.5e-8 dm)')
uc2=pyPRISM.util.UnitConverter(ec=4.1e-21,ec_unit='joule')
print(uc2.toKelvin(1.0))
print('--- Koyama')
try:
    o=pyPRISM.omega.DiscreteKoyama(sigma=1.0,l=1.0,length=20,lp=1.43)
    k=pyPRISM.Domain(length=64,dr=0.1).k
    v=o.calculate(k); print(v[:5], v[-3:])
except Exception as e:
    traceback.print_exc()
print('--- NFJC')
try:
    o=pyPRISM.omega.NFJC(length=5,l=1.0)
    v=o.calculate(k); print(v[:5])
except Exception as e:
    traceback.print_exc()
