import warnings, numpy as np, itertools
warnings.simplefilter('ignore')
import pyPRISM
from pyPRISM import MatrixArray, Space
rng=np.random.default_rng(0)
import operator as op
bad=[]
for trial in range(300):
    rank=int(rng.integers(1,6)); L=int(rng.integers(1,65))
    def rnd(L=L): 
        d=rng.normal(size=(L,rank,rank)); d=d+np.transpose(d,(0,2,1))+3*rank*np.eye(rank); return d
    spA=rng.choice([Space.Real,Space.Fourier,Space.NonSpatial]); spB=rng.choice([Space.Real,Space.Fourier,Space.NonSpatial])
    A=MatrixArray(L,rank,data=rnd(),space=spA); B=MatrixArray(L,rank,data=rnd(),space=spB)
    B1=MatrixArray(1,rank,data=rnd(1),space=Space.NonSpatial)
    compatible=(spA==spB) or Space.NonSpatial in (spA,spB)
    for name,f,g in [('add',op.add,np.add),('sub',op.sub,np.subtract),('mul',op.mul,np.multiply),('div',op.truediv,np.divide)]:
        for other,od in [(B,B.data),(2.5,2.5),(B1,B1.data),(rnd()[0],None)]:
            a0=A.data.copy(); 
            comp = compatible if other is B else True
            try:
                R=f(A,other)
                if not comp: bad.append((name,'no refusal',spA,spB)); continue
                exp=g(a0, od if od is not None else other)
                if not np.array_equal(R.data,exp): bad.append((name,'value'))
                if np.shares_memory(R.data,A.data) or (isinstance(other,MatrixArray) and np.shares_memory(R.data,other.data)): bad.append((name,'alias'))
                if not np.array_equal(A.data,a0): bad.append((name,'operand modified'))
            except AssertionError:
                if comp: bad.append((name,'spurious refusal',spA,spB))
    # dot / invert
    if compatible:
        R=A.dot(B); exp=np.stack([A.data[l]@B.data[l] for l in range(L)])
        if not np.allclose(R.data,exp,rtol=1e-12,atol=1e-12): bad.append(('dot','value'))
        R2=A@B
        if not np.array_equal(R.data,R2.data): bad.append(('matmul',))
    I=A.dot(A.invert())
    if not np.allclose(I.data,np.eye(rank)[None],atol=1e-9): bad.append(('inv',))
print(len(bad),bad[:10])
