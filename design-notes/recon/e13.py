import warnings, numpy as np, sys, time, itertools
warnings.simplefilter('ignore')
import pyPRISM
from pyPRISM.core.Space import Space
def dense_T(N,dr):
    # reference transforms as dense matrices, from the documented discretisation
    dk=np.pi/(dr*N); r=dr*np.arange(1,N+1); k=dk*np.arange(1,N+1)
    n=np.arange(N); 
    S2=np.sin(np.pi*np.outer(n+1,2*n+1)/(2*N))   # [j,n]
    F=(4*np.pi*dr/k)[:,None]*S2*r[None,:]         # fhat = F @ f
    # inverse: DST-III: y_n = (-1)^n x_{N-1} + 2 sum_{j=0}^{N-2} x_j sin(pi (j+1)(2n+1)/(2N))
    S3=2*np.sin(np.pi*np.outer(2*n+1,n+1)/(2*N)); S3[:,N-1]=(-1.0)**n
    B=(1/r)[:,None]*S3*(k*dk/(4*np.pi**2))[None,:]
    return r,k,F,B
N=64;dr=0.1
r,k,F,B=dense_T(N,dr)
d=pyPRISM.Domain(length=N,dr=dr)
f=np.exp(-r)*np.cos(3*r)
print('F vs to_fourier',np.abs(F@f-d.to_fourier(f)).max(),'B vs to_real',np.abs(B@f-d.to_real(f)).max(),'BF=I',np.abs(B@F-np.eye(N)).max())
# C01 prototype
rng=np.random.default_rng(1)
def build(rank,L,dr):
    types=list('ABC')[:rank]
    s=pyPRISM.System(types,kT=float(rng.choice([0.8,1.0,2.0])))
    s.domain=pyPRISM.Domain(length=L,dr=dr)
    for t in types:
        s.diameter[t]=float(rng.choice([1.0,1.2,0.8])); s.density[t]=float(rng.uniform(0.02,0.25))
    cl=[pyPRISM.closure.PercusYevick,pyPRISM.closure.HyperNettedChain,lambda:pyPRISM.closure.MSA(apply_hard_core=True),lambda:pyPRISM.closure.PY(apply_hard_core=True)]
    po=[lambda:pyPRISM.potential.HardSphere(),lambda:pyPRISM.potential.HardCoreLennardJones(float(rng.uniform(-0.3,0.3))),lambda:pyPRISM.potential.Exponential(float(rng.uniform(0.05,0.4)),0.5)]
    for a,b in itertools.combinations_with_replacement(types,2):
        s.closure[a,b]=cl[rng.integers(len(cl))](); s.potential[a,b]=po[rng.integers(len(po))]()
    for t in types: s.omega[t,t]=pyPRISM.omega.Gaussian(sigma=1.0,length=int(rng.integers(1,12))) if rng.random()<0.6 else pyPRISM.omega.SingleSite()
    for a,b in itertools.combinations(types,2): s.omega[a,b]=pyPRISM.omega.NoIntra()
    return s
ok=0
for it in range(40):
    rank=int(rng.integers(1,4)); L=int(rng.choice([64,100,128])); dr=float(rng.choice([0.1,0.2]))
    s=build(rank,L,dr)
    p=s.createPRISM()
    for meth,opt in [('krylov',{'disp':False,'maxiter':150}),('krylov',{'disp':False,'maxiter':150,'line_search':'wolfe'}),('df-sane',{'disp':False,'maxiter':1500})]:
        try: res=p.solve(method=meth,options=opt)
        except Exception as e: continue
        if res.success: break
    if not res.success: continue
    ok+=1
    r,k,F,B=dense_T(L,dr)
    types=s.types
    rho=np.array([s.density[t] for t in types])
    site=np.where(np.eye(rank,dtype=bool),np.diag(rho),rho[:,None]+rho[None,:]); pair=rho[:,None]*rho[None,:]
    h=np.array(p.totalCorr.data); assert p.totalCorr.space==Space.Real
    Ck=np.array(p.directCorr.data); assert p.directCorr.space==Space.Fourier
    Hk=np.einsum('jn,nab->jab',F,h)*pair
    # reference omega: from p (would be from refmodel)
    W=np.array(p.omega.data)
    lhs=Hk; rhs=W@Ck@(W+Hk)
    e1=np.abs(lhs-rhs).max()/max(1,np.abs(rhs).max())
    cr=np.einsum('nj,jab->nab',B,Ck)
    y=res.fun.reshape(L,rank,rank)
    gam_out=h-cr; gam_in=gam_out-y/r[:,None,None]
    e2=0
    for i,a in enumerate(types):
        for j,b in enumerate(types):
            if i<=j:
                clo=p.sys.closure[a,b]
                cref=clo.calculate(r,gam_in[:,i,j])   # would be refmodel closure
                e2=max(e2,np.abs(cref-cr[:,i,j]).max()/max(1,np.abs(cr[:,i,j]).max()))
    print(rank,L,meth,'|y|%.1e'%np.abs(y).max(),'PRISM eq rel err %.1e'%e1,'closure identity rel err %.1e'%e2, 'cond max',np.abs(Ck).max())
print('converged',ok)
