import warnings, numpy as np, sys, time
warnings.simplefilter('ignore')
import pyPRISM
rng=np.random.default_rng(0)
eps=np.finfo(float).eps
worst=0; worst2=0; cnt=0; bad=[]
primes=[2,3,5,7,11,13,97,101,257,509,1021,2039,4093]
for it in range(1500):
    L=int(rng.choice([int(rng.integers(1,4098)),int(rng.choice(primes)),int(2**rng.integers(0,13))]))
    sp=float(rng.choice([10**rng.uniform(-3,0.3),0.1,0.3,0.7,1/3,0.07]))
    d=pyPRISM.Domain(length=L,dr=sp) if rng.random()<0.5 else pyPRISM.Domain(length=L,dk=sp)
    # setter history
    for _ in range(int(rng.integers(0,5))):
        op=rng.choice(['dr','dk','length'])
        if op=='length': d.length=int(rng.integers(1,2049))
        else: setattr(d,op,float(10**rng.uniform(-3,0.3)))
    L=d.length
    assert len(d.r)==L and len(d.k)==L,(L,len(d.r),len(d.k))
    i=np.arange(1,L+1)
    e_r=np.abs(d.r-i*d.dr).max()/ (eps*d.r.max()); e_k=np.abs(d.k-i*d.dk).max()/(eps*d.k.max())
    e_pi=abs(d.dr*d.dk*L-np.pi)/np.pi/eps
    f=pyPRISM.Domain(length=L,dr=d.dr); e_fresh=max(np.abs(d.r-f.r).max()/(eps*d.r.max()),np.abs(d.k-f.k).max()/(eps*d.k.max()))
    kind=rng.choice(['rand','smooth','spike'])
    x={'rand':lambda:rng.normal(size=L),'smooth':lambda:np.exp(-d.r/d.r[-1]*8)*np.cos(d.r/d.r[-1]*20),'spike':lambda:np.eye(1,L,int(rng.integers(0,L)))[0]*1e3}[kind]()
    tol=64*eps*L*max(1,np.log2(L))*np.abs(x).max()
    rt=np.abs(d.to_real(d.to_fourier(x))-x).max()/tol; rt2=np.abs(d.to_fourier(d.to_real(x))-x).max()/tol
    worst=max(worst,rt,rt2); worst2=max(worst2,e_r,e_k,e_pi,e_fresh); cnt+=1
    if max(rt,rt2)>1 or max(e_r,e_k)>4 or e_pi>8 or e_fresh>4: bad.append((L,d.dr,kind,rt,rt2,e_r,e_k,e_pi,e_fresh))
print(cnt,'worst roundtrip/tol %.3f'%worst,'worst grid ulp ratio %.2f'%worst2,'bad',len(bad),bad[:5])
