import warnings, numpy as np, sys, time, itertools
warnings.simplefilter('ignore')
import pyPRISM
from pyPRISM.core.PRISM import PRISM
calls=[]
orig=PRISM.cost
def cost(self,x):
    y=orig(self,x); calls.append((np.array(x,copy=True),np.array(y,copy=True))); return y
PRISM.cost=cost
rng=np.random.default_rng(1)
stats={}
for it in range(200):
    s=pyPRISM.System(['A'],kT=1.0); L=int(rng.choice([64,100,128]))
    s.domain=pyPRISM.Domain(length=L,dr=0.1)
    s.density['A']=float(rng.uniform(0.01,0.6)); s.diameter['A']=1.0
    s.closure['A','A']=pyPRISM.closure.PercusYevick(); s.potential['A','A']=pyPRISM.potential.HardSphere()
    s.omega['A','A']=pyPRISM.omega.SingleSite()
    p=s.createPRISM()
    meth,opt=[('krylov',{'disp':False,'maxiter':150}),('krylov',{'disp':False,'maxiter':150,'line_search':'wolfe'}),('df-sane',{'disp':False,'maxiter':1500}),('hybr',{}),('anderson',{'disp':False,'maxiter':1500}),('broyden1',{'disp':False,'maxiter':1500}),('lm',{})][it%7]
    calls.clear()
    try: res=p.solve(method=meth,options=opt)
    except Exception as e: 
        stats.setdefault((meth,opt.get('line_search')),[0,0,0,0])[3]+=1; continue
    st=stats.setdefault((meth,opt.get('line_search')),[0,0,0,0])
    if not res.success: st[2]+=1; continue
    lastx,lasty=calls[-1]
    same=np.array_equal(lastx,res.x) and np.array_equal(lasty,np.ravel(res.fun))
    st[0]+=1; st[1]+= (not same)
    if not same and st[1]<=2:
        # where in the call trace is res.x?
        idx=[i for i,(x,y) in enumerate(calls) if np.array_equal(x,res.x)]
        print(meth,opt.get('line_search'),'ncalls',len(calls),'res.x found at',idx,'|lastx-res.x|',np.abs(lastx-res.x).max(),'|lasty|',np.abs(lasty).max(),'|res.fun|',np.abs(res.fun).max())
for k,v in stats.items(): print(k,'success',v[0],'last-eval != root',v[1],'unconverged',v[2],'exc',v[3])
