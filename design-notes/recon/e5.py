import warnings, numpy as np, sys, time
warnings.simplefilter('ignore')
import pyPRISM
rng=np.random.default_rng(5)
def rand_system(rng,rank):
    types=list('ABC')[:rank]
    kT=float(rng.choice([0.7,1.0,1.5,3.0]))
    s=pyPRISM.System(types,kT=kT)
    dr=float(rng.choice([0.1,0.05,0.2])); L=int(rng.choice([128,256,512,200,300]))
    s.domain=pyPRISM.Domain(length=L,dr=dr)
    eta_tot=rng.uniform(0.02,0.35)
    w=rng.dirichlet(np.ones(rank))
    ds=[float(rng.choice([1.0,1.0,1.2,0.8,2.0])) for t in types]
    for t,wi,d in zip(types,w,ds):
        s.diameter[t]=d
        s.density[t]=float(6*eta_tot*wi/np.pi/d**3)
    desc=[]
    for i,a in enumerate(types):
        for j,b in enumerate(types):
            if i<=j:
                cl=rng.choice(['PY','HNC','MSA','MS','PYhc','HNChc'])
                C={'PY':lambda:pyPRISM.closure.PercusYevick(),'HNC':lambda:pyPRISM.closure.HyperNettedChain(),'MSA':lambda:pyPRISM.closure.MSA(apply_hard_core=True),'MS':lambda:pyPRISM.closure.MS(apply_hard_core=True),'PYhc':lambda:pyPRISM.closure.PY(apply_hard_core=True),'HNChc':lambda:pyPRISM.closure.HNC(apply_hard_core=True)}[cl]()
                s.closure[a,b]=C
                po=rng.choice(['HS','HCLJ','EXP','LJ','WCA'])
                eps=float(rng.uniform(0.05,0.6))
                if cl in('MSA','MS') or True:
                    pass
                U={'HS':lambda:pyPRISM.potential.HardSphere(),'HCLJ':lambda:pyPRISM.potential.HardCoreLennardJones(eps*rng.choice([-1,1])),'EXP':lambda:pyPRISM.potential.Exponential(eps,alpha=0.5),'LJ':lambda:pyPRISM.potential.LennardJones(eps,rcut=2.5*(ds[i]+ds[j])/2,shift=True),'WCA':lambda:pyPRISM.potential.WeeksChandlerAndersen(eps)}[po]()
                s.potential[a,b]=U
                desc.append((a+b,cl,po))
    for i,a in enumerate(types):
        om=rng.choice(['SS','G','FJC','GR'])
        N=int(rng.choice([2,5,20,100]))
        O={'SS':lambda:pyPRISM.omega.SingleSite(),'G':lambda:pyPRISM.omega.Gaussian(sigma=ds[i],length=N),'FJC':lambda:pyPRISM.omega.FJC(length=N,l=ds[i]),'GR':lambda:pyPRISM.omega.GaussianRing(sigma=ds[i],length=N)}[om]()
        s.omega[a,a]=O
        desc.append((a,om,N))
        for j,b in enumerate(types):
            if i<j: s.omega[a,b]=pyPRISM.omega.NoIntra()
    return s,desc
ok=0;n=0;times=[]
fails=[]
for it in range(120):
    rank=int(rng.integers(1,4))
    s,desc=rand_system(rng,rank)
    t=time.time()
    try:
        p=s.createPRISM()
        res=p.solve(options={'disp':False,'maxiter':200})
        succ=bool(res.success)
        fmax=np.abs(res.fun).max()
    except Exception as e:
        succ=False; fmax=None; desc.append(('EXC',type(e).__name__,str(e)[:60]))
    dt=time.time()-t
    n+=1; ok+=succ; times.append(dt)
    if not succ: fails.append((rank,fmax,desc))
print('converged',ok,'of',n,'mean t',np.mean(times),'max t',np.max(times))
for f in fails[:15]: print(f)
