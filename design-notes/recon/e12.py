import warnings, numpy as np, sys, time, traceback, itertools, copy
warnings.simplefilter('ignore')
import pyPRISM
from pyPRISM.core.Space import Space
C=pyPRISM.calculate
rng=np.random.default_rng(3)
def mk(rank):
    types=list('ABCD')[:rank]
    s=pyPRISM.System(types,kT=float(rng.uniform(0.5,3)))
    L=64
    s.domain=pyPRISM.Domain(length=L,dr=0.1)
    for t in types:
        s.density[t]=float(rng.uniform(0.05,0.3)); s.diameter[t]=float(rng.choice([1.0,1.2,0.8,1.0]))
    s.closure[types,types]=pyPRISM.closure.PercusYevick()
    s.potential[types,types]=pyPRISM.potential.HardSphere()
    for t in types: s.omega[t,t]=pyPRISM.omega.Gaussian(sigma=1.0,length=int(rng.integers(2,30)))
    for a,b in itertools.combinations(types,2): s.omega[a,b]=pyPRISM.omega.FromArray(rng.uniform(0,1,L)) if rng.random()<0.5 else pyPRISM.omega.NoIntra()
    p=s.createPRISM()
    # hand populate: smooth random symmetric functions
    k=s.domain.k
    def randsym(space):
        m=pyPRISM.MatrixArray(length=L,rank=rank,space=space,types=types)
        for i,a in enumerate(types):
            for j,b in enumerate(types):
                if i<=j: m[a,b]=rng.normal()*np.exp(-k*rng.uniform(0.1,1))*0.3
        return m
    p.directCorr=randsym(Space.Fourier); p.totalCorr=randsym(Space.Fourier)
    return s,p
for rank in [1,2,3,4]:
    s,p=mk(rank)
    types=s.types; k=s.domain.k; kT=s.kT
    rho=np.array([s.density[t] for t in types]); d=np.array([s.diameter[t] for t in types])
    site=np.where(np.eye(rank,dtype=bool),np.diag(rho),rho[:,None]+rho[None,:]); pair=rho[:,None]*rho[None,:]
    H=np.array(p.totalCorr.data); Cc=np.array(p.directCorr.data); W=np.array(p.omega.data)  # W already scaled
    S=W+pair*H
    err={}
    err['Sn']=np.abs(C.structure_factor(p,normalize=False).data-S).max()
    err['S']=np.abs(C.structure_factor(p).data-S/site).max()
    B2=C.second_virial(p,extrapolate=False); err['B2n']=max(abs(B2[a,b]-(-0.5*H[0,i,j])) for i,a in enumerate(types) for j,b in enumerate(types))
    def q0(y):
        x=k[:3]; A=np.vander(x,3); c=np.linalg.solve(A,y[:3]); return c[-1]
    B2=C.second_virial(p); err['B2']=max(abs(B2[a,b]-q0(-0.5*H[:,i,j])) for i,a in enumerate(types) for j,b in enumerate(types))
    if rank>1:
        chik=C.chi(p,extrapolate=False); chi0=C.chi(p); sp=C.spinodal_condition(p)
        e=0;e0=0;es=0
        for i,j in itertools.combinations(range(rank),2):
            a,b=types[i],types[j]
            R=(d[i]/d[j])**3; phiA=rho[i]/(rho[i]+rho[j]); phiB=1-phiA
            ref=0.5*rho.sum()/(R**-0.5*phiA+R**0.5*phiB)*(Cc[:,i,i]/R+R*Cc[:,j,j]-2*Cc[:,i,j])
            e=max(e,np.abs(chik[a,b]-ref).max()); e0=max(e0,abs(chi0[a,b]-q0(ref)))
            assert chik[b,a] is chik[a,b] or np.array_equal(chik[b,a],chik[a,b])
            Om=W[:,[i,j]][:,:,[i,j]]; Cm=Cc[:,[i,j]][:,:,[i,j]]
            det=np.linalg.det(np.eye(2)-Om@Cm)
            es=max(es,abs(sp[a,b]-q0(det)))
        err['chik']=e; err['chi0']=e0; err['spin']=es
        Sn=S/site
        CSC=Cc@Sn@Cc
        psi=C.solvation_potential(p); 
        ref=pyPRISM.MatrixArray(length=64,rank=rank,data=-kT*CSC,space=Space.Fourier,types=types); s.domain.MatrixArray_to_real(ref)
        err['psiH']=np.abs(psi.data-ref.data).max()
        psi=C.solvation_potential(p,closure='PY')
        ref=pyPRISM.MatrixArray(length=64,rank=rank,data=-kT*np.log(1+CSC),space=Space.Fourier,types=types); s.domain.MatrixArray_to_real(ref)
        err['psiP']=np.nanmax(np.abs(psi.data-ref.data))
    g=C.pair_correlation(p); h=np.array(p.totalCorr.data); err['g']=np.abs(g.data-(h+1)).max()
    w=C.pmf(p); 
    with np.errstate(all='ignore'): err['pmf']=np.nanmax(np.abs(w.data-(-kT*np.log(h+1))))
    print(rank,{k:'%.1e'%v for k,v in err.items()})
