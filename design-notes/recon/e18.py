import warnings, numpy as np
warnings.simplefilter('ignore')
import pyPRISM
k=np.concatenate([10**np.linspace(-4,3,400), pyPRISM.Domain(length=4096,dr=0.25).k[:50], pyPRISM.Domain(length=1024,dk=0.001).k[:50]])
def ref(E,N):
    t=np.arange(1,N); return 1+(2.0/N)*np.sum((N-t)*E[:,None]**t,axis=1)
worst={}
for N in [2,3,10,100,1000,10000]:
    for sig in [0.5,1.0,2.0]:
        g=pyPRISM.omega.Gaussian(sigma=sig,length=N).calculate(k); rg=ref(np.exp(-k*k*sig*sig/6),N)
        f=pyPRISM.omega.FJC(l=sig,length=N).calculate(k); rf=ref(np.sin(k*sig)/(k*sig),N)
        for nm,v,r in [('G',g,rg),('F',f,rf)]:
            e=np.abs(v-r)/N
            w=worst.get((nm,N),(0,));  
            if e.max()>w[0]: worst[(nm,N)]=(e.max(),k[e.argmax()],sig, v.max()-N)
for kk,v in sorted(worst.items()): print(kk,v)
