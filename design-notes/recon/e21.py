import warnings, numpy as np, sys, time
warnings.simplefilter('ignore')
import pyPRISM
from scipy.integrate import quad
rng=np.random.default_rng(2)
def solve(s):
    p=s.createPRISM()
    for meth,opt in [('krylov',{'disp':False,'maxiter':200,'fatol':1e-11}),('krylov',{'disp':False,'maxiter':200,'line_search':'wolfe','fatol':1e-11}),('df-sane',{'disp':False,'maxiter':3000,'fatol':1e-11})]:
        try:
            r=p.solve(method=meth,options=opt)
            if r.success: return p
        except Exception: pass
    return None
# (a) PY HS over eta, 3 levels; report richardson 2- and 3-level rel errors for S0, contact, S(k) max, c(0.5)
def hs(eta,dr,rmax=25.6):
    s=pyPRISM.System(['A']); s.domain=pyPRISM.Domain(length=int(round(rmax/dr)),dr=dr)
    s.density['A']=6*eta/np.pi; s.diameter['A']=1.0
    s.closure['A','A']=pyPRISM.closure.PercusYevick(); s.potential['A','A']=pyPRISM.potential.HardSphere(); s.omega['A','A']=pyPRISM.omega.SingleSite()
    return s
def ck_py(k,eta):
    l1=(1+2*eta)**2/(1-eta)**4; l2=-(1+eta/2)**2/(1-eta)**4
    a,b,c=l1,6*eta*l2,0.5*eta*l1
    # int_0^1 r sin(kr)(a + b r + c r^3) dr * (-4pi/k)
    s,co=np.sin(k),np.cos(k)
    I1=(s-k*co)/k**2
    I2=(2*k*s+(2-k*k)*co-2)/k**3
    I4=((4*k**3-24*k)*s-(k**4-12*k*k+24)*co+24)/k**5
    return -4*np.pi/k*(a*I1+b*I2+c*I4)
worst={}
for eta in [0.03,0.1,0.2,0.3,0.4,0.47]:
    Q={}
    for dr in [0.1,0.05,0.025,0.0125]:
        p=solve(hs(eta,dr)); 
        if p is None: print('noconv',eta,dr); continue
        d=p.sys.domain; g=pyPRISM.calculate.pair_correlation(p)['A','A']; ic=int(round(1/dr))
        S=pyPRISM.calculate.structure_factor(p)['A','A']; nk=int(12/d.dk)
        B2=pyPRISM.calculate.second_virial(p)['A','A']; rho=6*eta/np.pi
        c=d.to_real(p.directCorr['A','A'])
        Q[dr]=dict(gc=g[ic],S0=1-2*rho*B2,Sk=S[:nk],c5=c[int(round(0.5/dr))-1])
    k=d.k[:nk]; ex=dict(gc=(1+eta/2)/(1-eta)**2,S0=(1-eta)**4/(1+2*eta)**2,Sk=1/(1-rho*ck_py(k,eta)),c5=-( (1+2*eta)**2/(1-eta)**4 -6*eta*(1+eta/2)**2/(1-eta)**4*0.5+0.5*eta*(1+2*eta)**2/(1-eta)**4*0.125))
    out=[]
    for q in ['gc','S0','Sk','c5']:
        v=[Q[dr][q] for dr in [0.1,0.05,0.025,0.0125]]
        sc=np.abs(ex[q]).max()
        e=[np.abs(x-ex[q]).max()/sc for x in v]
        r2=np.abs(2*v[2]-v[1]-ex[q]).max()/sc; r3=np.abs((8*v[2]-6*v[1]+v[0])/3-ex[q]).max()/sc
        r2f=np.abs(2*v[3]-v[2]-ex[q]).max()/sc
        out.append('%s e=%s R2=%.1e R2fine=%.1e R3=%.1e'%(q,['%.1e'%x for x in e],r2,r2f,r3))
    print('eta',eta,' | '.join(out))
