"""Deliberate property-breaking changes applied to scratch copies of the tree under test.

    ./pv selftest                      run every mutant against the checks expected to catch it
    ./pv selftest --only NAME[,NAME]   selected mutants
    ./pv selftest --property C07       mutants aimed at one property
    ./pv selftest --tests              also run the repository's own test suite on each mutant (slow)
    ./pv selftest --patch FILE --checks C01,C05   a unified diff (e.g. /verif/seeded/*/patch.diff)

Each mutant is a textual replacement (robust against line shifts).  The scratch copy lives in
/dev/shm (or $TMPDIR) and is removed right after its run; evidence and replay files of these
runs go to a scratch directory, never to /verif/evidence.
"""
import argparse
import json
import os
import shutil
import subprocess
import sys
import tempfile
import time

from . import core
from .mutants import MUTANTS


def scratch_root():
    for d in ('/dev/shm', os.environ.get('TMPDIR', '/tmp')):
        if os.path.isdir(d) and os.access(d, os.W_OK):
            return d
    return '/tmp'


def make_copy(repo):
    root = tempfile.mkdtemp(prefix='pvmon-mut-', dir=scratch_root())
    dst = os.path.join(root, 'repo')
    shutil.copytree(repo, dst, ignore=shutil.ignore_patterns('.git', 'build', '*.egg-info', '__pycache__', 'tutorial', 'docs', 'img', '*.pyc'))
    return root, dst


def apply_mutant(dst, m):
    for edit in m['edits']:
        path = os.path.join(dst, edit['file'])
        s = open(path).read()
        cnt = s.count(edit['old'])
        if cnt != edit.get('count', 1):
            raise core.HarnessError('mutant %s: pattern occurs %d times in %s (expected %d)' % (m['name'], cnt, edit['file'], edit.get('count', 1)))
        s = s.replace(edit['old'], edit['new'])
        open(path, 'w').write(s)


def run_check(pid, dst, out, tier, seed):
    env = dict(os.environ)
    env['PVMON_REPO'] = dst
    env['PVMON_OUT'] = out
    env['VERIF_SEED'] = str(seed)
    t0 = time.time()
    p = subprocess.run([os.path.join(core.HOME, 'pv'), 'check', pid, '--tier', tier], env=env, stdout=subprocess.PIPE,
                       stderr=subprocess.STDOUT, universal_newlines=True, timeout=3600)
    mechs = [l.strip() for l in p.stdout.splitlines() if l.strip().startswith('mechanism=')]
    return p.returncode, mechs, time.time() - t0, p.stdout


def run_tests(dst):
    p = subprocess.run(['/venv/bin/python', '-m', 'pytest', '-q', '-x', '-p', 'no:cacheprovider', '--timeout=900'], cwd=dst,
                       stdout=subprocess.PIPE, stderr=subprocess.STDOUT, universal_newlines=True,
                       env=dict(os.environ, PYTHONDONTWRITEBYTECODE='1', PYTHONPATH=dst))
    tail = p.stdout.strip().splitlines()[-1] if p.stdout.strip() else ''
    return p.returncode == 0, tail


def main(argv):
    ap = argparse.ArgumentParser(prog='pv selftest')
    ap.add_argument('--only')
    ap.add_argument('--property')
    ap.add_argument('--tests', action='store_true')
    ap.add_argument('--tier', default='quick')
    ap.add_argument('--seed', type=int, default=0)
    ap.add_argument('--patch')
    ap.add_argument('--checks')
    ap.add_argument('--json')
    ap.add_argument('-v', action='store_true')
    ap.add_argument('--jobs', type=int, default=1)
    ap.add_argument('--seeded', action='store_true', help='run every seeded/<name>/patch.diff against the check of its own property')
    a = ap.parse_args(argv)
    repo = os.environ.get('PVMON_REPO', '/repo')
    todo = []
    if a.seeded:
        import glob
        for mp in sorted(glob.glob(os.path.join(core.HOME, 'seeded', '*', 'meta.json'))):
            meta = json.load(open(mp))
            if a.only and meta['name'] not in a.only.split(','):
                continue
            if a.property and meta['property'] != a.property:
                continue
            own = meta['property']
            props = [own] if meta.get('checks', {}).get(own, {}).get('status') != 'missed' else [k for k, v in meta['checks'].items() if v['status'] == 'caught'][:1]
            todo.append({'name': meta['name'], 'patch': os.path.join(os.path.dirname(mp), 'patch.diff'), 'props': props, 'edits': []})
    elif a.patch:
        todo = [{'name': os.path.basename(os.path.dirname(os.path.abspath(a.patch))) or a.patch, 'patch': os.path.abspath(a.patch),
                 'props': a.checks.split(',') if a.checks else [], 'edits': []}]
    else:
        for m in MUTANTS:
            if a.only and m['name'] not in a.only.split(','):
                continue
            if a.property and a.property not in m['props']:
                continue
            todo.append(m)
    results = []
    missed = 0

    def one(m):
        lines = []
        root, dst = make_copy(repo)
        try:
            if m.get('patch'):
                r = subprocess.run(['patch', '-p1', '-s', '-i', m['patch']], cwd=dst)
                if r.returncode != 0:
                    raise core.HarnessError('patch %s does not apply' % m['patch'])
            else:
                apply_mutant(dst, m)
            tests = None
            if a.tests:
                tests = run_tests(dst)
            row = {'mutant': m['name'], 'tests_pass': tests, 'checks': {}}
            miss = 0
            for pid in m['props']:
                rc, mechs, wall, out = run_check(pid, dst, os.path.join(root, 'out'), a.tier, a.seed)
                row['checks'][pid] = {'rc': rc, 'mechanisms': [x[len('mechanism='):].split(' :: ')[0] for x in mechs][:6], 'wall_s': round(wall, 1)}
                if rc == 1 and 'VIOLATION property=%s' % pid not in out:
                    rc = 3
                status = {0: 'MISSED', 1: 'caught', 2: 'inconclusive', 3: 'HARNESS-ERROR'}.get(rc, 'rc=%d' % rc)
                if rc != 1:
                    miss += 1
                lines.append('%-34s %s %-12s %5.1fs tests=%s %s' % (m['name'], pid, status, wall, None if tests is None else tests[1][:40],
                                                               '; '.join(row['checks'][pid]['mechanisms'][:3])))
                if a.v or rc == 3:
                    lines.append(out[-3000:])
            return row, miss, lines
        finally:
            shutil.rmtree(root, ignore_errors=True)
    from concurrent.futures import ThreadPoolExecutor
    with ThreadPoolExecutor(max_workers=max(1, a.jobs)) as ex:
        for row, miss, lines in ex.map(one, todo):
            results.append(row)
            missed += miss
            for l in lines:
                print(l, flush=True)
    if a.json:
        with open(a.json, 'w') as f:
            json.dump(results, f, indent=1)
    print('selftest: %d mutants, %d (mutant,check) pairs not caught' % (len(todo), missed))
    return 0 if missed == 0 else 1
