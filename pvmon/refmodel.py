"""Independent reference model for the quantities the properties talk about.

Written from the documented definitions / textbook formulas.  Shares no code with
pyPRISM and never calls scipy.fftpack.  Everything takes plain numbers / numpy
arrays / JSON-like spec dicts (see gen.py), never pyPRISM objects.
"""
import functools
import itertools
import math
import os

import numpy as np

DATA_DIR = os.path.join(os.path.realpath(os.environ.get('PVMON_REPO', '/repo')), 'data')

CONTACT_TOL = 1e-6      # the tolerance System.check uses to call sigma "on the grid"

# --------------------------------------------------------------------------- grids / transforms


def grids(L, dr):
    L = int(L)
    dk = math.pi / (dr * L)
    i = np.arange(1, L + 1, dtype=float)
    return i * dr, i * dk, dk


@functools.lru_cache(maxsize=8)
def dense_T(L, dr):
    """Dense matrices of the discrete 3-D radial transform pair on r_n=(n+1)dr, k_j=(j+1)dk.
    forward  F[j,n] = 4 pi dr r_n sin(pi (j+1)(2n+1)/(2N)) / k_j          (DST-II)
    backward B[n,j] = (dk k_j /(4 pi^2 r_n)) * 2 sin(pi (2n+1)(j+1)/(2N)) (DST-III; last column (-1)^n)
    """
    N = int(L)
    r, k, dk = grids(N, dr)
    n = np.arange(N)
    S2 = np.sin(np.pi * np.outer(n + 1, 2 * n + 1) / (2.0 * N))
    F = (4 * np.pi * dr / k)[:, None] * S2 * r[None, :]
    S3 = 2 * np.sin(np.pi * np.outer(2 * n + 1, n + 1) / (2.0 * N))
    S3[:, N - 1] = (-1.0) ** n
    B = (1.0 / r)[:, None] * S3 * (k * dk / (4 * np.pi ** 2))[None, :]
    return F, B


def _dst2(x):
    """DST-II along axis 0 via numpy's complex FFT (independent of scipy.fftpack)
    y_k = 2 sum_n x_n sin(pi (k+1)(2n+1)/(2N))"""
    N = x.shape[0]
    Z = np.fft.fft(x, n=2 * N, axis=0)
    m = np.arange(1, N + 1)
    ph = np.exp(1j * np.pi * m / (2.0 * N)).reshape((-1,) + (1,) * (x.ndim - 1))
    return 2 * np.imag(ph * np.conj(Z[1:N + 1]))


def _dst3(x):
    """DST-III along axis 0:  y_k = (-1)^k x_{N-1} + 2 sum_{n<N-1} x_n sin(pi (2k+1)(n+1)/(2N))"""
    N = x.shape[0]
    shape1 = (-1,) + (1,) * (x.ndim - 1)
    a = np.zeros((2 * N,) + x.shape[1:], dtype=complex)
    m = np.arange(1, N)
    a[1:N] = x[:N - 1] * np.exp(1j * np.pi * m / (2.0 * N)).reshape(shape1)
    s = np.fft.ifft(a, axis=0)[:N] * (2 * N)
    kk = np.arange(N).reshape(shape1)
    return (-1.0) ** kk * x[N - 1] + 2 * np.imag(s)


def to_fourier(f, dr, dense_limit=512):
    f = np.asarray(f, dtype=float)
    L = f.shape[0]
    r, k, dk = grids(L, dr)
    if L <= dense_limit:
        F, _ = dense_T(L, float(dr))
        return np.tensordot(F, f, axes=(1, 0))
    sh = (-1,) + (1,) * (f.ndim - 1)
    return _dst2(2 * np.pi * dr * r.reshape(sh) * f) / k.reshape(sh)


def to_real(F_, dr, dense_limit=512):
    F_ = np.asarray(F_, dtype=float)
    L = F_.shape[0]
    r, k, dk = grids(L, dr)
    if L <= dense_limit:
        _, B = dense_T(L, float(dr))
        return np.tensordot(B, F_, axes=(1, 0))
    sh = (-1,) + (1,) * (F_.ndim - 1)
    return _dst3(k.reshape(sh) * dk / (4 * np.pi ** 2) * F_) / r.reshape(sh)


def quad0(x, y):
    """value at 0 of the exact quadratic through the three points (x_i, y_i), Lagrange form"""
    x0, x1, x2 = [float(v) for v in x[:3]]
    y = np.asarray(y)
    l0 = (x1 * x2) / ((x0 - x1) * (x0 - x2))
    l1 = (x0 * x2) / ((x1 - x0) * (x1 - x2))
    l2 = (x0 * x1) / ((x2 - x0) * (x2 - x1))
    return l0 * y[0] + l1 * y[1] + l2 * y[2]


# --------------------------------------------------------------------------- potentials

def snap(sig, r, tol=CONTACT_TOL):
    """grid value that coincides with sigma within tol, else sigma"""
    r = np.asarray(r)
    if r.size == 0:
        return sig
    i = int(np.argmin(np.abs(r - sig)))
    return float(r[i]) if abs(r[i] - sig) < tol else sig


def contact_mask(r, sig, tol=CONTACT_TOL):
    """True where the grid point is NOT a contact point of sigma"""
    return np.abs(np.asarray(r) - sig) >= tol


def pot_sigma(spec, sig):
    s = spec.get('sigma')
    return sig if s is None else s


def _lj(x, eps, s):
    return 4.0 * eps * ((s / x) ** 12 - (s / x) ** 6)


def u_ref(spec, r, sig):
    """potential of `spec` on r with contact distance sig (explicit spec sigma wins).
    Formulas as documented; core = r <= sigma, tail = r > sigma."""
    r = np.asarray(r, dtype=float)
    t = spec['t']
    s = spec.get('sigma')
    s = sig if s is None else s
    hv = spec.get('hv', 1e6)
    with np.errstate(all='ignore'):
        if t == 'HS':
            return np.where(r > s, 0.0, hv)
        if t == 'HCLJ':
            return np.where(r > s, spec['eps'] * ((s / r) ** 12 - 2 * (s / r) ** 6), hv)
        if t == 'EXP':
            return np.where(r > s, -spec['eps'] * np.exp(-(r - s) / spec['alpha']), hv)
        if t == 'LJ':
            u = _lj(r, spec['eps'], s)
            rc = spec.get('rcut')
            if rc is not None:
                if spec.get('shift'):
                    u = u - _lj(rc, spec['eps'], s)
                u = np.where(r > rc, 0.0, u)
            return u
        if t == 'WCA':
            rc = s * 2 ** (1.0 / 6.0)
            return np.where(r > rc, 0.0, _lj(r, spec['eps'], s) - _lj(rc, spec['eps'], s))
        if t == 'SW':
            # the user-defined square well of tutorial NB9: strict inequalities, as written there
            return np.where(r < s, hv, np.where(r < s + spec['width'], -float(spec['depth']), 0.0))
    raise KeyError(t)


def special_points(spec, sig):
    """distances at which the documented u(r) switches branch (core edge, cut-off): a grid point within the contact
    tolerance of one of them can fall on either side depending on last-digit noise of the grid"""
    s = pot_sigma(spec, sig)
    pts = [s]
    if spec['t'] == 'LJ' and spec.get('rcut') is not None:
        pts.append(spec['rcut'])
    if spec['t'] == 'WCA':
        pts.append(s * 2 ** (1.0 / 6.0))
    if spec['t'] == 'SW':
        pts.append(s + spec['width'])
    return pts


def branch_mask(spec, r, sig, tol=CONTACT_TOL):
    """True where r is NOT within tol of a branch point of the potential"""
    m = np.ones(len(r), dtype=bool)
    for x in special_points(spec, sig):
        m &= np.abs(np.asarray(r) - x) >= tol
    return m


def hard_core_family(spec):
    return spec['t'] in ('HS', 'HCLJ', 'EXP')




# --------------------------------------------------------------------------- closures

def c_ref(spec, r, gam, u, sig, ms='published'):
    """closure relation c(gamma,u); with the hard-core flag: -1-gamma for r<=sigma.
    ms='published' -> Martynov-Sarkisov  exp(sqrt(1+2(gamma-u))-1)-1-gamma
    ms='shipped'   -> the expression pyPRISM ships (known finding D7)"""
    r = np.asarray(r, dtype=float)
    gam = np.asarray(gam, dtype=float)
    t = spec['t']
    with np.errstate(all='ignore'):
        if t == 'PY':
            out = (np.exp(-u) - 1.0) * (1.0 + gam)
        elif t == 'HNC':
            out = np.exp(gam - u) - 1.0 - gam
        elif t == 'MSA':
            out = np.array(np.broadcast_to(-np.asarray(u, dtype=float), gam.shape))     # independent of gamma, even for inf/nan trial values
        elif t == 'MS':
            if ms == 'published':
                out = np.exp(np.sqrt(1.0 + 2.0 * (gam - u)) - 1.0) - 1.0 - gam
            elif ms == 'original':
                # Martynov & Sarkisov 1983: g = exp(-u + sqrt(1+2 gamma) - 1)
                out = np.exp(-u + np.sqrt(1.0 + 2.0 * gam) - 1.0) - 1.0 - gam
            else:
                out = np.exp(np.sqrt(gam - u + 0.5) - 1.0) - 1.0 - gam
        else:
            raise KeyError(t)
        if spec.get('hc'):
            out = np.where(r > sig, out, -1.0 - gam)
    return out


# --------------------------------------------------------------------------- omegas

def chain_sum(E, N):
    """(1/N) sum_{i,j} E^{|i-j|} = 1 + (2/N) sum_{t=1}^{N-1} (N-t) E^t, evaluated term by term.
    For N > 2000 the sum is done in blocks to bound memory."""
    E = np.atleast_1d(np.asarray(E, dtype=float))
    out = np.ones_like(E)
    N = int(N)
    step = 1024
    for t0 in range(1, N, step):
        t = np.arange(t0, min(N, t0 + step), dtype=float)
        with np.errstate(under='ignore'):
            out += (2.0 / N) * np.sum((N - t)[None, :] * E[:, None] ** t[None, :], axis=1)
    return out


def w_ref(spec, k):
    """single-chain structure factor omega(k) from the defining pair sum"""
    k = np.atleast_1d(np.asarray(k, dtype=float))
    t = spec['t']
    if t == 'SS':
        return np.ones_like(k)
    if t in ('NI', 'IM'):
        return np.zeros_like(k)
    if t == 'ARR':
        return np.array(spec['w'], dtype=float)
    if t == 'FILE':
        # tabulated data shipped with the repository (repo/data); read independently of pyPRISM.omega.FromFile
        rows = [[float(x) for x in ln.replace(',', ' ').split()] for ln in open(os.path.join(DATA_DIR, spec['file'])) if ln.strip() and not ln.lstrip().startswith('#')]
        return np.array([row[-1] for row in rows], dtype=float)
    N = int(spec['N'])
    if t == 'G':
        return chain_sum(np.exp(-k * k * spec['s'] ** 2 / 6.0), N)
    if t == 'FJC':
        x = k * spec['s']
        return chain_sum(np.sin(x) / x, N)
    if t == 'RING':
        tt = np.arange(1, N, dtype=float)
        out = np.ones_like(k)
        step = 1024
        for t0 in range(0, len(tt), step):
            ts = tt[t0:t0 + step]
            with np.errstate(under='ignore'):
                out += np.sum(np.exp(-spec['s'] ** 2 * k[:, None] ** 2 * ts[None, :] * (N - ts[None, :]) / (6.0 * N)), axis=1)
        return out
    raise KeyError(t)


def frc_r2(n, l, cos1):
    """second moment <r_n^2> of a chain with fixed bond length l and <cos(theta)> = -cos1... see
    note: pyPRISM stores cos1 = l/lp - 1 = <cos> of the supplementary angle; the freely rotating
    chain with bond-vector correlation q = -cos1 has <r_n^2> = n l^2 [(1+q)/(1-q) - 2q(1-q^n)/(n(1-q)^2)]"""
    q = -cos1
    return n * l * l * ((1 + q) / (1 - q) - 2 * q * (1 - q ** n) / (n * (1 - q) ** 2))


# --------------------------------------------------------------------------- densities etc.

def rho_mats(rho):
    rho = np.asarray(rho, dtype=float)
    n = len(rho)
    pair = rho[:, None] * rho[None, :]
    site = np.where(np.eye(n, dtype=bool), np.diag(rho), rho[:, None] + rho[None, :])
    return pair, site


def sphere_volume(d):
    return math.pi * d ** 3 / 6.0


# --------------------------------------------------------------------------- exact liquid state results

def py_hs_contact(eta):
    return (1 + eta / 2.0) / (1 - eta) ** 2


def py_hs_S0(eta):
    return (1 - eta) ** 4 / (1 + 2 * eta) ** 2


def py_hs_c_r(x, eta):
    """Wertheim-Thiele c(r) for x=r/sigma (<1); 0 outside"""
    x = np.asarray(x, dtype=float)
    l1 = (1 + 2 * eta) ** 2 / (1 - eta) ** 4
    l2 = -(1 + eta / 2.0) ** 2 / (1 - eta) ** 4
    c = -(l1 + 6 * eta * l2 * x + 0.5 * eta * l1 * x ** 3)
    return np.where(x < 1, c, 0.0)


def py_hs_c_k(k, eta, sigma):
    """3-D Fourier transform of the Wertheim-Thiele c(r): 4 pi int_0^sigma c(r) r sin(kr)/k dr (closed form)"""
    k = np.asarray(k, dtype=float)
    q = k * sigma
    l1 = (1 + 2 * eta) ** 2 / (1 - eta) ** 4
    l2 = -(1 + eta / 2.0) ** 2 / (1 - eta) ** 4
    a, b, g = l1, 6 * eta * l2, 0.5 * eta * l1
    s, c = np.sin(q), np.cos(q)
    # int_0^1 x sin(qx) dx etc.
    I1 = (s - q * c) / q ** 2
    I2 = (2 * q * s + (2 - q * q) * c - 2) / q ** 3
    I4 = ((4 * q ** 3 - 24 * q) * s - (q ** 4 - 12 * q * q + 24) * c + 24) / q ** 5
    return -4 * np.pi * sigma ** 3 / q * (a * I1 + b * I2 + g * I4)


def py_hs_S_k(k, eta, sigma):
    rho = 6 * eta / (np.pi * sigma ** 3)
    return 1.0 / (1.0 - rho * py_hs_c_k(k, eta, sigma))


# --------------------------------------------------------------------------- reference self-consistency function

def cost_ref(sp, x, pairs_of, ms='shipped'):
    """Independent re-implementation of the self-consistent map r*(gamma_out - gamma_in) from the user-level spec:
    closure in real space (reference closures/potentials), dense reference transforms, per-wavenumber matrix algebra.
    Returns (y, worst condition number of I - Omega C)."""
    types = sp['types']
    n, L, dr, kT = len(types), int(sp['L']), float(sp['dr']), float(sp['kT'])
    r, k, dk = grids(L, dr)
    rho = np.array([sp['rho'][t] for t in types])
    pair, site = rho_mats(rho)
    gin = np.asarray(x, dtype=float).reshape(L, n, n) / r[:, None, None]
    c = np.zeros((L, n, n))
    W = np.zeros((L, n, n))
    for (i, j), (a, b) in pairs_of(types):
        key = '%s|%s' % (a, b)
        sig = (sp['d'][a] + sp['d'][b]) / 2.0
        ps, cs = sp['pot'][key], sp['clo'][key]
        u = u_ref(dict(ps, sigma=snap(pot_sigma(ps, sig), r)), r, None) / kT
        cij = c_ref(cs, r, gin[:, i, j], u, snap(sig, r), ms=ms)
        c[:, i, j] = cij
        c[:, j, i] = cij
        w = w_ref(sp['om'][key], k) * site[i, j]
        W[:, i, j] = w
        W[:, j, i] = w
    Ck = to_fourier(c, dr)
    OC = W @ Ck
    A = np.eye(n)[None] - OC
    if not np.all(np.isfinite(A)):
        return np.full(L * n * n, np.nan), np.inf
    try:
        cond = float(np.max(np.linalg.cond(A)))
        H = np.linalg.solve(A, OC @ W) / pair
    except np.linalg.LinAlgError:
        return np.full(L * n * n, np.nan), np.inf
    gout = to_real(H - Ck, dr)
    return (r[:, None, None] * (gout - gin)).reshape(-1), cond


# --------------------------------------------------------------------------- discrete Koyama chain (independent moments)

@functools.lru_cache(maxsize=None)
def _leggauss200():
    return np.polynomial.legendre.leggauss(200)


def _bond_angle_moments(eps, T):
    """<t>, <t^2> of t = 1 + cos(theta) in [0, T] with weight exp(-eps t) (bending energy eps per unit cos), Gauss-Legendre"""
    hi = T if eps * T < 60.0 else 60.0 / eps          # beyond 60/eps the weight is < 1e-26 of its maximum
    x, w = _leggauss200()
    t = 0.5 * hi * (x + 1.0)
    wt = 0.5 * hi * w * np.exp(-eps * t)
    m0 = wt.sum()
    return float((wt * t).sum() / m0), float((wt * t * t).sum() / m0)


def dk_moments(sigma, l, lp, nmax):
    """exact second and fourth moments <r_n^2>, <r_n^4>, n = 1..nmax, of the chain the DiscreteKoyama docstring describes (Honnell,
    Curro, Schweizer 1990): fixed bond length l, free rotation about the bonds, bond angle with Boltzmann weight exp(-eps*cos) on
    cos(theta) in [-1, cos0], cos0 = 1 - sigma^2/(2 l^2) (no overlap of second neighbours), eps such that <cos(theta)> = l/lp - 1.
    Computed by a step-by-step recursion on <R^2>, <R.u>, <(R.u)^2>, <R^2 R.u>, <R^4> (no closed form, no cancellation)."""
    T = 2.0 - sigma * sigma / (2.0 * l * l)             # range of t = 1 + cos(theta)
    target = l / lp                                      # <t> = 1 + <cos> = l/lp
    lo, hi = 1e-12, 1e-12
    f = lambda e: _bond_angle_moments(e, T)[0] - target  # decreasing in e
    if f(lo) < 0:
        return None                                      # lp below the freely-jointed minimum
    hi = 1.0
    while f(hi) > 0:
        hi *= 2.0
        if hi > 1e7:
            return None
    for _ in range(200):
        mid = 0.5 * (lo + hi)
        if f(mid) > 0:
            lo = mid
        else:
            hi = mid
    eps = 0.5 * (lo + hi)
    t1, t2 = _bond_angle_moments(eps, T)
    q = 1.0 - t1                                         # bond-vector correlation <u_i.u_(i+1)> = -<cos(theta)>
    c2 = t2 - 2.0 * t1 + 1.0                             # <cos^2>
    p = (3.0 * c2 - 1.0) / 2.0
    Ea, Eb, Ebb, Eab, Eaa = l * l, l, l * l, l ** 3, l ** 4
    r2, r4 = [Ea], [Eaa]
    for n in range(2, nmax + 1):
        s2 = (1.0 - p) / 3.0 * Ea + p * Ebb              # <(R.u')^2>
        Eaa_n = Eaa + 2 * l * l * Ea + l ** 4 + 4 * l * q * (Eab + l * l * Eb) + 4 * l * l * s2
        Eab_n = q * (Eab + l * l * Eb) + l * (Ea + l * l) + 2 * l * s2 + 2 * l * l * q * Eb
        Ebb_n = s2 + 2 * l * q * Eb + l * l
        Ea_n = Ea + 2 * l * q * Eb + l * l
        Eb_n = q * Eb + l
        Ea, Eb, Ebb, Eab, Eaa = Ea_n, Eb_n, Ebb_n, Eab_n, Eaa_n
        r2.append(Ea)
        r4.append(Eaa)
    return np.array(r2), np.array(r4), eps, q, p


def dk_ref(sigma, l, N, lp, k):
    """omega(k) of the discrete Koyama model from the defining pair sum with the documented kernel sin(Bk)/(Bk) exp(-A^2 k^2)"""
    mom = dk_moments(sigma, l, lp, int(N) - 1)
    if mom is None:
        return None
    r2, r4 = mom[0], mom[1]
    k = np.asarray(k, dtype=float)
    out = np.ones_like(k)
    for n in range(1, int(N)):
        C2 = 0.5 * (5.0 - 3.0 * r4[n - 1] / (r2[n - 1] ** 2))
        C = math.sqrt(min(max(C2, 0.0), 1.0))
        B = math.sqrt(C * r2[n - 1])
        Asq = r2[n - 1] * (1.0 - C) / 6.0
        with np.errstate(under='ignore'):
            wn = (np.sin(B * k) / (B * k) if B > 0 else np.ones_like(k)) * np.exp(-Asq * k * k)
        out += (2.0 / N) * (N - n) * wn
    return out
