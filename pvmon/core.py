"""Run context, verdict logic, evidence and replay files for the pyPRISM monitors.

A check module provides
    PID          property id
    RULE         how cases are generated and what makes one non-trivial
    ASSUMPTIONS  list of strings
    MINIMA       {tier: {hook_name: minimum event count}}  (below -> INCONCLUSIVE)
    SHARDS       {tier: number of worker processes}
    setup(ctx)   optional: attach monitors to the real code
    cases(ctx)   generator of JSON-serialisable case dicts
    run_case(ctx, case)   executes the real code under the monitors
A case is fully described by its dict, so `--replay file` re-executes exactly it.
"""
import collections
import hashlib
import json
import os
import sys
import time
import traceback
import zlib

import numpy as np

HOME = os.environ.get('PVMON_HOME', os.path.dirname(os.path.dirname(os.path.abspath(__file__))))
REPO = os.path.realpath(os.environ.get('PVMON_REPO', '/repo'))
OUT = os.environ.get('PVMON_OUT', HOME)     # evidence/ and replays/ go here (selftests redirect it)


class HarnessError(Exception):
    """The harness itself is broken (never a verdict about pyPRISM)."""


class Skip(Exception):
    """Case cannot be decided (e.g. solve did not converge); counted, never a verdict."""

    def __init__(self, reason):
        Exception.__init__(self, reason)
        self.reason = reason


def jsonable(x, depth=0):
    if isinstance(x, dict):
        return {str(k): jsonable(v, depth + 1) for k, v in x.items()}
    if isinstance(x, (list, tuple, set, frozenset)):
        return [jsonable(v, depth + 1) for v in x]
    if isinstance(x, np.ndarray):
        if x.size > 64:
            flat = x.ravel()
            return {'ndarray': list(x.shape), 'head': [jsonable(v) for v in flat[:8]],
                    'min': jsonable(np.nanmin(flat)) if flat.size else None,
                    'max': jsonable(np.nanmax(flat)) if flat.size else None}
        return [jsonable(v) for v in x.tolist()]
    if isinstance(x, (np.floating, float)):
        x = float(x)
        if x != x or x in (float('inf'), float('-inf')):
            return repr(x)
        return x
    if isinstance(x, (np.integer,)):
        return int(x)
    if isinstance(x, (np.bool_,)):
        return bool(x)
    if x is None or isinstance(x, (int, str, bool)):
        return x
    return repr(x)


def digest(obj):
    return hashlib.sha1(json.dumps(jsonable(obj), sort_keys=True).encode()).hexdigest()[:12]


class Ctx(object):
    def __init__(self, pid, tier, seed, shard=0, nshards=1, replay=False, time_budget=None):
        self.pid = pid
        self.tier = tier
        self.seed = int(seed)
        self.shard = shard
        self.nshards = nshards
        self.replay = replay
        self.t0 = time.time()
        self.time_budget = time_budget
        self.evaluations = 0
        self.sigs = set()
        self.hooks = collections.Counter()
        self.hist = collections.defaultdict(collections.Counter)
        self.samples = []
        self.violations = []       # list of dicts (mech,msg,replay)
        self.known = collections.Counter()
        self.known_msgs = {}
        self.skipped = collections.Counter()
        self.worst = {}            # name -> (value, case digest) largest observed error/tolerance ratios
        self._seen_mech = set()
        self._known_table = load_known(pid)
        self.current_case = None
        self.stopped_early = False

    # ---------------------------------------------------------------- random
    def rng(self, tag=''):
        return np.random.default_rng([self.seed & 0xffffffff, self.shard, self.nshards,
                                      zlib.crc32(tag.encode()) & 0xffffffff])

    def thorough(self):
        return self.tier == 'thorough'

    def budget(self, quick, thorough):
        """number of cases for THIS shard"""
        n = thorough if self.tier == 'thorough' else quick
        return max(1, -(-n // self.nshards))

    def mine(self, i):
        """round-robin ownership of systematically enumerated cases"""
        return i % self.nshards == self.shard

    def expired(self):
        if self.time_budget is None:
            return False
        if time.time() - self.t0 > self.time_budget:
            self.stopped_early = True
            return True
        return False

    # ---------------------------------------------------------------- recording
    def hook(self, name, k=1):
        self.hooks[name] += k

    def count(self, cat, key, k=1):
        self.hist[cat][str(key)] += k

    def nontrivial(self, sig):
        self.sigs.add(sig if isinstance(sig, str) and len(sig) <= 16 else digest(sig))

    def sample(self, obj, limit=4):
        if len(self.samples) < limit:
            self.samples.append(jsonable(obj))

    def observe(self, name, ratio):
        """keep the largest error/tolerance ratio seen per oracle (evidence of head-room)"""
        try:
            ratio = float(ratio)
        except Exception:
            return
        if ratio != ratio:
            return
        ratio = min(ratio, 1e300)
        if name not in self.worst or ratio > self.worst[name]:
            self.worst[name] = ratio

    def skip(self, reason):
        self.skipped[reason] += 1

    # ---------------------------------------------------------------- verdicts
    def violation(self, mech, msg, case=None, detail=None):
        """mech: short mechanism signature (no random values) used for known-finding lookup"""
        case = case if case is not None else self.current_case
        entry = self._known_table.get(mech)
        if entry is not None and entry.get('status') == 'known':
            self.known[mech] += 1
            self.known_msgs.setdefault(mech, entry.get('what', msg))
            return
        key = mech
        first = key not in self._seen_mech
        self._seen_mech.add(key)
        rec = {'mech': mech, 'msg': msg, 'count': 1}
        for v in self.violations:
            if v['mech'] == mech:
                v['count'] += 1
                return
        path = None
        if first:
            path = self.write_replay(mech, msg, case, detail)
        rec['replay'] = path
        self.violations.append(rec)
        print('VIOLATION property=%s replay=%s' % (self.pid, path), flush=True)
        print('  mechanism=%s :: %s' % (mech, msg), flush=True)

    def write_replay(self, mech, msg, case, detail):
        d = os.path.join(OUT, 'replays')
        os.makedirs(d, exist_ok=True)
        name = '%s-%s-%s.json' % (self.pid, ''.join(c if c.isalnum() else '_' for c in mech)[:48],
                                  digest([mech, case])[:8])
        path = os.path.join(d, name)
        with open(path, 'w') as f:
            json.dump({'property': self.pid, 'mechanism': mech, 'message': msg, 'tier': self.tier,
                       'seed': self.seed, 'shard': self.shard, 'nshards': self.nshards,
                       'case': jsonable_case(case), 'detail': jsonable(detail)}, f, indent=1)
        return path

    # ---------------------------------------------------------------- partial results
    def partial(self):
        return {'evaluations': self.evaluations, 'sigs': sorted(self.sigs), 'hooks': dict(self.hooks),
                'hist': {k: dict(v) for k, v in self.hist.items()}, 'samples': self.samples,
                'violations': self.violations, 'known': dict(self.known), 'known_msgs': self.known_msgs,
                'skipped': dict(self.skipped), 'worst': self.worst, 'wall_s': time.time() - self.t0,
                'stopped_early': self.stopped_early, 'shard': self.shard}


def jsonable_case(case):
    """cases are JSON dicts already; keep arrays in full so that a replay is exact"""
    def conv(x):
        if isinstance(x, dict):
            return {str(k): conv(v) for k, v in x.items()}
        if isinstance(x, (list, tuple)):
            return [conv(v) for v in x]
        if isinstance(x, np.ndarray):
            return conv(x.tolist())
        if isinstance(x, (np.floating,)):
            return float(x)
        if isinstance(x, (np.integer,)):
            return int(x)
        if isinstance(x, (np.bool_,)):
            return bool(x)
        if isinstance(x, float) and (x != x or x in (float('inf'), float('-inf'))):
            return repr(x)
        if x is None or isinstance(x, (int, float, str, bool)):
            return x
        return repr(x)
    return conv(case)


def load_known(pid):
    path = os.path.join(HOME, 'known_findings.json')
    table = {}
    if os.path.exists(path):
        with open(path) as f:
            data = json.load(f)
        for e in data.get('findings', []):
            if e.get('property') == pid and e.get('status') == 'known':
                table[e['mechanism']] = e
    return table


def in_repo(tb):
    """does the traceback pass through the tree under test?"""
    for fs in traceback.extract_tb(tb):
        fn = os.path.realpath(fs.filename)
        if fn.startswith(REPO + os.sep):
            return True
    return False


def innermost_repo_frame(tb):
    last = None
    for fs in traceback.extract_tb(tb):
        fn = os.path.realpath(fs.filename)
        if fn.startswith(REPO + os.sep):
            last = fs
    return last


def execute(ctx, module, case):
    """run one case; classify escaping exceptions"""
    ctx.current_case = case
    ctx.evaluations += 1
    try:
        module.run_case(ctx, case)
    except Skip as s:
        ctx.skip(s.reason)
    except HarnessError:
        raise
    except (KeyboardInterrupt, SystemExit):
        raise
    except BaseException as e:  # noqa
        tb = e.__traceback__
        fs = innermost_repo_frame(tb)
        if fs is None:
            raise
        where = '%s:%s' % (os.path.relpath(os.path.realpath(fs.filename), REPO), fs.name)
        ctx.violation('unexpected-exception:%s@%s' % (type(e).__name__, where),
                      '%s: %s (line %s: %s)' % (type(e).__name__, str(e)[:200], fs.lineno, fs.line),
                      case, {'traceback': traceback.format_exception(type(e), e, tb)[-12:]})
    finally:
        ctx.current_case = None


def merge(parts):
    out = {'evaluations': 0, 'sigs': set(), 'hooks': collections.Counter(),
           'hist': collections.defaultdict(collections.Counter), 'samples': [], 'violations': [],
           'known': collections.Counter(), 'known_msgs': {}, 'skipped': collections.Counter(), 'worst': {},
           'stopped_early': 0, 'shards': len(parts)}
    for p in parts:
        out['evaluations'] += p['evaluations']
        out['sigs'].update(p['sigs'])
        out['hooks'].update(p['hooks'])
        for k, v in p['hist'].items():
            out['hist'][k].update(v)
        for s in p['samples']:
            if len(out['samples']) < 6:
                out['samples'].append(s)
        for v in p['violations']:
            for w in out['violations']:
                if w['mech'] == v['mech']:
                    w['count'] += v['count']
                    break
            else:
                out['violations'].append(dict(v))
        out['known'].update(p['known'])
        out['known_msgs'].update(p.get('known_msgs', {}))
        out['skipped'].update(p['skipped'])
        for k, v in p['worst'].items():
            if k not in out['worst'] or v > out['worst'][k]:
                out['worst'][k] = v
        out['stopped_early'] += 1 if p.get('stopped_early') else 0
    return out


def write_evidence(module, tier, seed, merged, wall, inconclusive, extra=None):
    cov = {
        'evaluations': int(merged['evaluations']),
        'distinct_nontrivial': len(merged['sigs']),
        'rule': module.RULE,
        'samples': merged['samples'],
        'monitor_events': {k: int(v) for k, v in sorted(merged['hooks'].items())},
        'histograms': {k: dict(sorted(v.items(), key=lambda kv: -kv[1])[:40]) for k, v in merged['hist'].items()},
        'skipped_cases': dict(merged['skipped']),
        'worst_error_over_tolerance': {k: float('%.3g' % v) for k, v in sorted(merged['worst'].items())},
        'known_findings_observed': dict(merged['known']),
        'worker_processes': merged['shards'],
        'workers_stopped_by_time_budget': merged['stopped_early'],
        'inconclusive': inconclusive,
        'exhaustive': False,
    }
    if extra:
        cov.update(extra)
    ev = {
        'property_id': module.PID, 'tier': tier, 'seed': int(seed), 'level': 'exploration',
        'coverage': cov, 'assumptions': list(module.ASSUMPTIONS), 'wall_s': round(wall, 2),
        'violations': sum(1 for _ in merged['violations']),
    }
    d = os.path.join(OUT, 'evidence')
    os.makedirs(d, exist_ok=True)
    path = os.path.join(d, module.PID + '.json')
    tmp = path + '.tmp%d' % os.getpid()
    with open(tmp, 'w') as f:
        json.dump(ev, f, indent=1, sort_keys=True)
    os.replace(tmp, path)
    return path
