"""The repository's own test-suite as a monitored workload.

The tests are run in-process (unittest discovery of pyPRISM/test/*_test.py), so every call they make goes through whatever
class-level contracts / invariants / hooks the calling check has installed.  The tests' own assertions are not the point
(they are the baseline); the point is that the maintainers' inputs flow through the monitors: a contract that fires here is
either too strict (a false alarm to be corrected) or a defect the tests do not assert.
"""
import io
import os
import unittest
import warnings

import numpy as np

from . import core


def run(ctx, pattern='*_test.py'):
    """returns (tests run, failures+errors, monitor events observed during the run)"""
    before = sum(ctx.hooks.values())
    loader = unittest.TestLoader()
    top = core.REPO
    start = os.path.join(core.REPO, 'pyPRISM', 'test')
    suite = loader.discover(start, pattern=pattern, top_level_dir=top)
    stream = io.StringIO()
    with warnings.catch_warnings(), np.errstate(all='ignore'):
        warnings.simplefilter('ignore')
        res = unittest.TextTestRunner(stream=stream, verbosity=0).run(suite)
    seen = sum(ctx.hooks.values()) - before
    bad = len(res.failures) + len(res.errors)
    ctx.hook('repo_suite.tests_run', res.testsRun)
    ctx.count('repo_suite', '%d tests run in-process, %d failed or errored, %d monitor events during the run' % (res.testsRun, bad, seen))
    for t, tb in (res.failures + res.errors)[:3]:
        ctx.count('repo_suite_failure', '%s: %s' % (t.id(), tb.strip().splitlines()[-1][:120]))
    if res.testsRun and seen:
        ctx.nontrivial(['repo_suite', pattern])
    return res.testsRun, bad, seen
