"""Catalogue of deliberate property-breaking changes (textual replacements on a scratch copy).

Every entry: name, props (checks expected to fire), edits [{file, old, new, count=1}].
They are the kind of change that keeps the repository's own 59 tests green
(`./pv selftest --tests` verifies that; results are recorded in DESIGN.md).
"""


def M(name, props, *edits):
    return {'name': name, 'props': props, 'edits': [dict(file=f, old=o, new=n) for f, o, n in edits]}


DOMAIN = 'pyPRISM/core/Domain.py'
MA = 'pyPRISM/core/MatrixArray.py'
PT = 'pyPRISM/core/PairTable.py'
VT = 'pyPRISM/core/ValueTable.py'
DENS = 'pyPRISM/core/Density.py'
DIAM = 'pyPRISM/core/Diameter.py'
PRISM = 'pyPRISM/core/PRISM.py'
SYSTEM = 'pyPRISM/core/System.py'

MUTANTS = [
    # ------------------------------------------------------------------ C07 / C08 Domain
    M('domain-grid-untruncated', ['C07'],
      (DOMAIN, "self.r = np.arange(self._dr,self._dr*(self._length+1),self._dr)[:self._length]",
       "self.r = np.arange(self._dr,self._dr*(self._length+1),self._dr)")),
    M('domain-length-setter-stale-dk', ['C07'],
      (DOMAIN, "        self._dk = np.pi/(self._dr*self._length) #conjugate spacing depends on length\n", "")),
    M('domain-dk-n-plus-1', ['C07', 'C08'],
      (DOMAIN, "        self._dr = value\n        self._dk = np.pi/(self._dr*self._length)", "        self._dr = value\n        self._dk = np.pi/(self._dr*(self._length+1))")),
    M('domain-dk-setter-no-rebuild', ['C07'],
      (DOMAIN, "        self._dr = np.pi/(self._dk*self._length)\n        self.build_grid()", "        self._dr = np.pi/(self._dk*self._length)")),
    M('domain-compensating-prefactors', ['C08'],
      (DOMAIN, "self.DST_II_coeffs = 2.0*np.pi *self.r*self._dr", "self.DST_II_coeffs = 1.0*np.pi *self.r*self._dr"),
      (DOMAIN, "self.DST_III_coeffs = self.k * self.dk/(4.0*np.pi*np.pi)", "self.DST_III_coeffs = self.k * self.dk/(2.0*np.pi*np.pi)")),
    M('domain-ma-to-real-no-flag', ['C07'],
      (DOMAIN, "            marray[t1,t2] = self.to_real(pair)\n            \n        marray.space = Space.Real", "            marray[t1,t2] = self.to_real(pair)\n            \n")),
    M('domain-ma-double-transform-allowed', ['C07'],
      (DOMAIN, "        if marray.space == Space.Fourier:\n            raise ValueError('MatrixArray is marked as already in Fourier space')", "        if False:\n            raise ValueError('MatrixArray is marked as already in Fourier space')")),
    # ------------------------------------------------------------------ C13 MatrixArray
    M('ma-sub-returns-view', ['C13'],
      (MA, "            data = self.data - other\n        return MatrixArray(", "            data = self.data - other\n            if np.isscalar(other) and other==0: data = self.data\n        return MatrixArray(")),
    M('ma-iadd-on-copy', ['C13'],
      (MA, "            self.data += other.data\n        else:\n            self.data += other\n        return self",
       "            return MatrixArray(length=self.length,rank=self.rank,data=self.data + other.data,space=self.space,types=self.types)\n        else:\n            self.data += other\n        return self")),
    M('ma-isub-rebinds', ['C13'],
      (MA, "            self.data -= other\n", "            self.data = other - self.data if False else self.data - other*1.0000001\n")),
    M('ma-setter-one-triangle', ['C13'],
      (MA, "        if not (index1 == index2):\n            self.data[:,index2,index1] = val", "        if index1 < index2:\n            self.data[:,index2,index1] = val")),
    M('ma-mul-space-unchecked', ['C13'],
      (MA, "            assert (self.space == other.space) or (Space.NonSpatial in (self.space,other.space)),MatrixArray.SpaceError\n            data = self.data * other.data",
       "            data = self.data * other.data")),
    M('ma-dot-transposed', ['C13'],
      (MA, "            data = np.einsum('lij,ljk->lik', self.data, other.data)", "            data = np.einsum('lij,ljk->lik', other.data, self.data)")),
    M('ma-invert-inplace-stale', ['C13'],
      (MA, "        if inplace:\n            self.data = data\n            return self", "        if inplace:\n            return self")),
    M('ma-getcopy-shares', ['C13'],
      (MA, "data=np.copy(self.data),space=self.space,types=self.types)", "data=self.data,space=self.space,types=self.types)")),
    M('ma-div-by-length1-first-only', ['C13'],
      (MA, "            data = self.data / other.data\n", "            data = self.data / (other.data if other.length==self.length else other.data[0,0,0])\n")),
    # ------------------------------------------------------------------ C14 tables
    M('pt-no-deepcopy', ['C14'],
      (PT, "value_copy = copy.deepcopy(value) ", "value_copy = value ")),
    M('pt-deepcopy-once-per-statement', ['C14'],
      (PT, "        types1,types2 = index\n        for t1 in self.listify(types1):", "        types1,types2 = index\n        value = copy.deepcopy(value)\n        for t1 in self.listify(types1):"),
      (PT, "value_copy = copy.deepcopy(value) ", "value_copy = value ")),
    M('pt-setunset-overwrites-offdiagonal', ['C14'],
      (PT, "        for i,(t1,t2),v in self.iterpairs():\n            if v is None:\n                self[t1,t2] = value", "        for i,(t1,t2),v in self.iterpairs():\n            if v is None or (self.values[t2][t2] is None and t1!=t2):\n                self[t1,t2] = value")),
    M('pt-no-mirror-when-list', ['C14'],
      (PT, "                if self.symmetric and t1!=t2:", "                if self.symmetric and t1!=t2 and not isinstance(types2,tuple):")),
    M('pt-iterpairs-offdiag-includes-last-diag', ['C14'],
      (PT, "            test = lambda i,j: i<j", "            test = lambda i,j: i<j or (i==j and i==3)")),
    M('pt-check-upper-row-only', ['C14'],
      (PT, "        for i,t,val in self.iterpairs():\n            if val is None:\n                raise ValueError('PairTable {} is not fully specified!'.format(self.name))", "        for (i,j),t,val in self.iterpairs():\n            if val is None and i==0:\n                raise ValueError('PairTable {} is not fully specified!'.format(self.name))")),
    M('pt-apply-outofplace-aliases-self', ['C14'],
      (PT, "            table = PairTable(types=self.types,name=self.name,symmetric=self.symmetric)", "            table = PairTable(types=self.types,name=self.name,symmetric=self.symmetric)\n            table.values = self.values")),
    M('vt-setunset-overwrites', ['C14'],
      (VT, "        for i,t,v in self:\n            if v is None:\n                self[t] = value", "        for i,t,v in self:\n            if v is None or i==len(self.types)-1:\n                self[t] = value")),
    M('table-listify-tuple-as-single', ['C14'],
      ('pyPRISM/core/Table.py', "        if isinstance(values,str):", "        if isinstance(values,(str,tuple)):")),
    # ------------------------------------------------------------------ C15 Density / Diameter
    M('dens-total-accumulates', ['C15'],
      (DENS, "            self.total = 0.\n", "            self.total = 0. if t1==self.types[0] else self.total - (0. if self.total is None else 0.)\n")),
    M('dens-site-offdiag-first-write-only', ['C15'],
      (DENS, "                    self.site[t1,t2] = [rho1 + rho2]", "                    if self.site[t1,t2][0]==0.0: self.site[t1,t2] = [rho1 + rho2]")),
    M('dens-pair-row-only-upper', ['C15'],
      (DENS, "                self.pair[t1,t2] = [rho1*rho2]", "                if self.types.index(t1)<=self.types.index(t2) or self.pair[t1,t2][0]==0.0: self.pair[t1,t2] = [rho1*rho2]")),
    M('diam-volume-d2', ['C15'],
      (DIAM, "self.volume[t1] = (4.0/3.0) * np.pi * (d1/2.0)**(3.0)", "self.volume[t1] = (4.0/3.0) * np.pi * (d1/2.0)**(2.0) * (d1/2.0 if d1==1.0 else 0.5)")),
    M('diam-sigma-first-write-only', ['C15'],
      (DIAM, "                self.sigma[t1,t2] = (d1 + d2)/2.0", "                if self.sigma[t1,t2] is None or t1==t2: self.sigma[t1,t2] = (d1 + d2)/2.0")),
    M('dens-check-skips', ['C15'],
      (DENS, "        self.density.check()", "        if self.density[self.types[0]] is None: self.density.check()")),
    # ------------------------------------------------------------------ C09 closures (C03 core)
    M('py-hc-branch-minus-one', ['C09', 'C03'],
      ('pyPRISM/closure/PercusYevick.py', "            self.value = -1 - gamma\n", "            self.value = -1 - 0*gamma\n")),
    M('hnc-hc-drops-gamma-outside', ['C09'],
      ('pyPRISM/closure/HyperNettedChain.py', "            self.value[mask] = np.exp(gamma[mask] - self.potential[mask]) - 1.0 - gamma[mask]", "            self.value[mask] = np.exp(gamma[mask] - self.potential[mask]) - 1.0")),
    M('py-one-plus-gamma-nonhc', ['C09'],
      ('pyPRISM/closure/PercusYevick.py', "            self.value = (np.exp(-self.potential)-1.0)*(1.0+gamma)", "            self.value = (np.exp(-self.potential)-1.0)*(1.0+np.abs(gamma))")),
    M('msa-core-mask-ge', ['C09', 'C03'],
      ('pyPRISM/closure/MeanSphericalApproximation.py', "            mask = r>self.sigma", "            mask = r>=self.sigma")),
    M('ms-core-mask-ge', ['C09'],
      ('pyPRISM/closure/MartynovSarkisov.py', "            mask = r>self.sigma", "            mask = r>=self.sigma")),
    M('hnc-clips-large-gamma', ['C09'],
      ('pyPRISM/closure/HyperNettedChain.py', "            self.value = np.exp(gamma - self.potential) - 1.0 - gamma", "            self.value = np.exp(np.minimum(gamma - self.potential,20.0)) - 1.0 - gamma")),
    M('py-normalises-gamma-inplace', ['C09'],
      ('pyPRISM/closure/PercusYevick.py', "        if self.apply_hard_core:\n            assert self.sigma", "        if len(gamma)>1 and gamma[0]>40: gamma[0] = 40\n        if self.apply_hard_core:\n            assert self.sigma")),
    M('msa-global-shift', ['C09'],
      ('pyPRISM/closure/MeanSphericalApproximation.py', "            self.value = -self.potential\n", "            self.value = -(self.potential - (self.potential[-1] if abs(self.potential[-1])<1e-2 else 0.0))\n")),
    # ------------------------------------------------------------------ C10 potentials
    M('lj-shift-sign', ['C10'],
      ('pyPRISM/potential/LennardJones.py', "                magnitude -= self.funk(self.rcut,self.sigma)", "                magnitude += self.funk(self.rcut,self.sigma)")),
    M('wca-cut-cube-root', ['C10'],
      ('pyPRISM/potential/WeeksChandlerAndersen.py', "self.rcut = self.sigma * 2**(1.0/6.0)", "self.rcut = self.sigma * 2**(1.0/3.0)")),
    M('hclj-core-strict', ['C10', 'C03'],
      ('pyPRISM/potential/HardCoreLennardJones.py', "magnitude[r<=self.sigma] = self.high_value", "magnitude[r<self.sigma] = self.high_value")),
    M('exp-ignores-high-value', ['C10'],
      ('pyPRISM/potential/Exponential.py', "magnitude = np.where(r>self.sigma,magnitude,self.high_value)", "magnitude = np.where(r>self.sigma,magnitude,1e6)")),
    M('lj-cut-inclusive', ['C10'],
      ('pyPRISM/potential/LennardJones.py', "            magnitude[r>self.rcut] = 0.0", "            magnitude[r>=self.rcut*1.0000001] = 0.0")),
    M('hs-sorts-r', ['C10'],
      ('pyPRISM/potential/HardSphere.py', "        magnitude = self.funk(r,self.sigma)", "        r.sort()\n        magnitude = self.funk(r,self.sigma)")),
    M('prism-sigma-default-one-diameter', ['C10', 'C16'],
      (PRISM, "                    U.sigma = self.sys.diameter[t1,t2]\n                # a contact", "                    U.sigma = self.sys.diameter[t1]\n                # a contact")),
    M('prism-no-snap', ['C10'],
      (PRISM, "                U.sigma = self._snap_to_grid(U.sigma)\n", "")),
    M('prism-snap-closure-only-diagonal', ['C10'],
      (PRISM, "self.sys.closure[t1,t2].sigma = self._snap_to_grid(self.sys.diameter[t1,t2])", "self.sys.closure[t1,t2].sigma = self._snap_to_grid(self.sys.diameter[t1,t2]) if t1==t2 else self.sys.diameter[t1,t2]")),
    M('prism-explicit-sigma-overridden', ['C10', 'C16'],
      (PRISM, "                if U.sigma is None:\n                    U.sigma = self.sys.diameter[t1,t2]\n                # a contact", "                if U.sigma is None or t1!=t2:\n                    U.sigma = self.sys.diameter[t1,t2]\n                # a contact")),
    # ------------------------------------------------------------------ C11 omegas
    M('gauss-small-k-switch-removed', ['C11'],
      ('pyPRISM/omega/Gaussian.py', "        small = np.abs(1-E)<1e-4", "        small = np.abs(1-E)<0")),
    M('fjc-small-k-threshold-tiny', ['C11'],
      ('pyPRISM/omega/FreelyJointedChain.py', "        small = np.abs(1-E)<1e-4", "        small = np.abs(1-E)<1e-9")),
    M('gauss-closed-form-E-over-N', ['C11', 'C01'],
      ('pyPRISM/omega/Gaussian.py', "self.value = (1 - E*E - 2*E/N + (2*E**(N+1))/N)/((1-E)**2.0)", "self.value = (1 - E*E - 2*E/N + (2*E**(N+1))/(N+1e-3))/((1-E)**2.0)")),
    M('gauss-direct-sum-off-by-one', ['C11'],
      ('pyPRISM/omega/Gaussian.py', "            t = np.arange(1,N)\n", "            t = np.arange(1,N-1)\n")),
    M('ring-weight-swapped', ['C11'],
      ('pyPRISM/omega/GaussianRing.py', "abs(i-j)*(self.length-abs(i-j))/(6.0*self.length)", "abs(i-j)*(self.length-abs(i-j))/(6.0*(self.length-1))")),
    M('ring-normalises-by-max', ['C11'],
      ('pyPRISM/omega/GaussianRing.py', "        return self.value", "        if len(k)>3: self.value *= self.length/self.value.max()\n        return self.value")),
    M('dk-loop-short', ['C11'],
      ('pyPRISM/omega/DiscreteKoyama.py', "        for i in range(1,self.length):\n            for j in range(i+1,self.length+1):\n                n = abs(i - j)\n                self.value += self.koyama_kernel_fourier(k=k,n=n)", "        for i in range(1,self.length):\n            for j in range(i+1,self.length):\n                n = abs(i - j)\n                self.value += self.koyama_kernel_fourier(k=k,n=n)")),
    M('dk-r2-sign', ['C11'],
      ('pyPRISM/omega/DiscreteKoyama.py', "r2 = n*l*l*((1-self.cos1)/(1+self.cos1) + 2*self.cos1/n", "r2 = n*l*l*((1-self.cos1)/(1+self.cos1) - 2*self.cos1/n")),
    M('dk-accepts-small-lp', ['C11'],
      ('pyPRISM/omega/DiscreteKoyama.py', "        if self.lp<self.lp_min:", "        if self.lp<0.9*self.lp_min:")),
    M('singlesite-scalar-broadcast', ['C11'],
      ('pyPRISM/omega/SingleSite.py', "        self.value = np.ones_like(k)", "        self.value = np.ones_like(k)*(1.0 if len(k)!=1 else 1.0+1e-6)")),
]
