"""Seeded generators of user-level system specifications and the bridge to real pyPRISM objects.

A spec is a JSON dict:
  types, kT, dr, L, d{t}, rho{t}, pot{'A|B': {...}}, clo{'A|B': {...}}, om{'A|B': {...}}
The reference model (refmodel.py) consumes the same dict, the builder turns it into a real
pyPRISM.System through the public API only.
"""
import copy
import itertools

import os

import numpy as np

import pyPRISM
from pyPRISM.potential.Potential import Potential

P = pyPRISM.potential
C = pyPRISM.closure
O = pyPRISM.omega


def pk(a, b):
    return '%s|%s' % (a, b)


def pairs(types, diagonal=True):
    for i, a in enumerate(types):
        for j, b in enumerate(types):
            if i < j or (diagonal and i == j):
                yield (i, j), (a, b)


# ----------------------------------------------------------------------------- builders

DATA_DIR = os.path.join(os.path.realpath(os.environ.get('PVMON_REPO', '/repo')), 'data')


class SquareWell(Potential):
    '''the user-defined potential of tutorial NB9 (pyPRISM.Advanced), verbatim: a subclass written by a user, not shipped code'''
    def __init__(self, depth, width, sigma, high_value=1e6):
        self.sigma = sigma
        self.width = sigma + width
        self.depth = depth
        self.high_value = high_value

    def calculate(self, r):
        magnitude = np.zeros_like(r)
        magnitude[r < self.width] = -self.depth
        magnitude[r < self.sigma] = self.high_value
        return magnitude


def mk_pot(spec):
    t = spec['t']
    sg = spec.get('sigma')
    kw = {}
    if 'hv' in spec:
        kw['high_value'] = spec['hv']
    if t == 'HS':
        return P.HardSphere(sigma=sg, **kw)
    if t == 'HCLJ':
        return P.HardCoreLennardJones(spec['eps'], sigma=sg, **kw)
    if t == 'EXP':
        return P.Exponential(spec['eps'], spec['alpha'], sigma=sg, **kw)
    if t == 'LJ':
        return P.LennardJones(spec['eps'], sigma=sg, rcut=spec.get('rcut'), shift=spec.get('shift', False))
    if t == 'WCA':
        return P.WeeksChandlerAndersen(spec['eps'], sigma=sg)
    if t == 'SW':
        return SquareWell(depth=spec['depth'], width=spec['width'], sigma=sg, **kw)
    raise KeyError(t)


CLOSURES = {'PY': ('PercusYevick', 'PY'), 'HNC': ('HyperNettedChain', 'HNC'),
            'MSA': ('MeanSphericalApproximation', 'MSA'), 'MS': ('MartynovSarkisov', 'MS')}


def mk_clo(spec, variant=2):
    """variant selects how the user wrote the constructor call: 0 -> the documented default where it applies (no argument, no
    hard-core condition) | 1 -> positional flag | otherwise keyword"""
    name = CLOSURES[spec['t']][1 if spec.get('alias') else 0]
    if not spec.get('hc') and variant % 3 == 0:
        return getattr(C, name)()
    if variant % 3 == 1:
        return getattr(C, name)(bool(spec.get('hc')))
    return getattr(C, name)(apply_hard_core=bool(spec.get('hc')))


def mk_om(spec):
    t = spec['t']
    if t == 'SS':
        return O.SingleSite()
    if t == 'NI':
        return O.NoIntra()
    if t == 'IM':
        return O.InterMolecular()
    if t == 'ARR':
        return O.FromArray(np.array(spec['w'], dtype=float))
    if t == 'FILE':
        return O.FromFile(os.path.join(DATA_DIR, spec['file']))
    if t == 'G':
        return O.Gaussian(sigma=spec['s'], length=spec['N'])
    if t == 'FJC':
        return O.FJC(length=spec['N'], l=spec['s']) if spec.get('alias') else O.FreelyJointedChain(length=spec['N'], l=spec['s'])
    if t == 'RING':
        return O.GaussianRing(sigma=spec['s'], length=spec['N'])
    raise KeyError(t)


def fresh(x):
    """an object equal to x but (where the language allows) not identical to it: labels that are computed at run time, read from
    a file or typed twice are equal, not the same object.  (Single characters and small integers are cached by Python.)"""
    if isinstance(x, str):
        return ''.join(list(x))
    if isinstance(x, int) and not isinstance(x, bool):
        return int(str(x))
    return x


def style(sp):
    """user-level writing style of a spec, derived deterministically from its content unless sp['style'] says otherwise:
    'plain' | 'grouped' (equal values assigned through list keys, identical pair items through table[types, types], as the
    tutorials do) | 'replace' (the System's tables are replaced by newly created tables before they are filled)"""
    if sp.get('style'):
        return sp['style']
    h = spec_hash(sp) % 10
    return 'grouped' if h < 3 else ('replace' if h < 5 else 'plain')


def spec_hash(sp):
    return int(round(sum(sp['rho'].values()) * 1e9 + sp['L'] + 1e6 * sp['kT']))


def build(sp, omit=(), labels=None, originals=None, into=None):
    """real System from a spec; `omit` lists items to leave unspecified
    ('domain', 'rho:A', 'd:A', 'pot:A|B', 'clo:A|B', 'om:A|B'); `labels` maps the spec's type names to the labels used in the
    real System (any hashable: other strings, integers); `originals` (a list) collects the potential/closure/omega objects the
    user handed to the tables (the tables store copies); `into` = an existing System of the same types that is re-specified in
    place (a parameter sweep on one System object, as every tutorial does).
    Every use of a label is a fresh equal object (see fresh()); the writing style (see style()) varies with the spec."""
    if labels is None:
        labels = sp.get('labels')
    lab = (lambda t: fresh(t)) if labels is None else (lambda t: fresh(labels[t]))
    types = [lab(t) for t in sp['types']]
    st = style(sp)
    # numbers computed with numpy are numpy scalars / 0-d arrays, not Python floats: every third spec hands them over as such
    carrier = [float, np.float64, lambda v: np.array(v, dtype=float)][(spec_hash(sp) // 7) % 3] if not isinstance(sp['kT'], int) else (lambda v: v)
    num = lambda v: v if isinstance(v, int) else carrier(v)
    if into is not None:
        s = into
        s.kT = num(sp['kT'])
    elif sp.get('kT_via') == 'assign':
        # the temperature is assigned after construction, as a temperature sweep on one System does
        s = pyPRISM.System(types)
        s.kT = num(sp['kT'])
    else:
        s = pyPRISM.System(types, kT=num(sp['kT']))
    if st == 'replace' and into is None:
        # the documented public containers replaced wholesale by newly created ones, filled afterwards
        # ... every other time listing the labels in another order than the System does: the containers are keyed by label
        hh = spec_hash(sp) // 10

        def order(k):
            # each container in its own order (bit k of the spec hash): the System's, or reversed
            return list(sp['types']) if (hh >> k) % 2 == 0 else list(reversed(sp['types']))
        s.density = pyPRISM.Density([lab(t) for t in order(0)])
        s.diameter = pyPRISM.Diameter([lab(t) for t in order(1)])
        s.potential = pyPRISM.PairTable([lab(t) for t in order(2)], 'potential')
        s.closure = pyPRISM.PairTable([lab(t) for t in order(3)], 'closure')
        s.omega = pyPRISM.PairTable([lab(t) for t in order(4)], 'omega')
    if 'domain' not in omit:
        s.domain = make_domain(sp)
    for name, table, vals in (('rho', s.density, sp['rho']), ('d', s.diameter, sp['d'])):
        todo = [t for t in sp['types'] if '%s:%s' % (name, t) not in omit]
        if (spec_hash(sp) // 20) % 2 == 1:
            todo = todo[::-1]               # the order of the assignment statements is the user's business, not the type list's
        if st == 'grouped':
            # types that share a value are assigned in one statement through a list (or tuple) key
            seen = []
            for t in todo:
                if t in seen:
                    continue
                grp = [u for u in todo if vals[u] == vals[t]]
                seen += grp
                if len(grp) > 1:
                    key = [lab(u) for u in grp]
                    table[key if len(seen) % 2 else tuple(key)] = num(vals[t])
                else:
                    table[lab(t)] = num(vals[t])
        else:
            for t in todo:
                table[lab(t)] = num(vals[t])
    for key, val in (sp.get('sigma_table') or {}).items():
        # non-additive mixture: the user writes a cross contact distance into the System's public sigma table
        a, b = key.split('|')
        if 'd:' + a not in omit and 'd:' + b not in omit:
            s.diameter.sigma[lab(a), lab(b)] = val
    for name, table, mk in (('pot', s.potential, mk_pot), ('clo', s.closure, mk_clo), ('om', s.omega, mk_om)):
        items = [(key, spec) for key, spec in sp[name].items() if '%s:%s' % (name, key) not in omit]
        done = set()
        pre = {}
        if name == 'om' and (spec_hash(sp) // 7) % 3 == 0:
            # tabulated omegas built FIRST, each from the same float64 work array refilled in place, and assigned afterwards (a
            # script that computes the block form factors into one buffer): an omega object holds the numbers it was given
            arr = [(key, spec) for key, spec in items if spec.get('t') == 'ARR']
            if arr:
                work = np.empty(len(arr[0][1]['w']), dtype=float)
                for key, spec in arr:
                    if len(spec['w']) == len(work):
                        work[:] = spec['w']
                        pre[key] = O.FromArray(work)
                work[:] = -1.0
        if st == 'grouped' and len(items) == len(sp[name]) and len(items) > 1:
            # sys.closure[sys.types, sys.types] = PY() followed by the exceptions, as the tutorials write it
            first = items[0][1]
            same = [key for key, spec in items if spec == first]
            if len(same) > 1:
                obj = mk(first) if name != 'clo' else mk_clo(first, spec_hash(sp) // 10)
                if originals is not None:
                    originals.append(obj)
                table[[lab(t) for t in sp['types']], [lab(t) for t in sp['types']]] = obj
                done = set(same)
        for key, spec in items:
            if key in done:
                continue
            a, b = key.split('|')
            late = {}
            if name == 'pot' and originals is None and (spec_hash(sp) // 3) % 4 == 0:
                # the user assigns the object first and completes it afterwards IN PLACE, addressing the pair with the labels in the
                # other order (sys.potential['B','A'].rcut = 2.5): both orders are one and the same entry
                late = {k: spec[k] for k in ('sigma', 'rcut', 'shift') if spec.get(k) not in (None, False)}
                spec = {k: v for k, v in spec.items() if k not in late}
            obj = pre.pop(key) if key in pre else (mk(spec) if name != 'clo' else mk_clo(spec, spec_hash(sp) // 10 + len(done) + sp['types'].index(a) + 2 * sp['types'].index(b)))
            if originals is not None:
                originals.append(obj)
            table[lab(a), lab(b)] = obj
            for k, v in late.items():
                setattr(table[lab(b), lab(a)], k, v)
    return s


def make_domain(sp):
    """the Domain of a spec, reached through the configuration path sp['via']:
    'dr' (default) constructor with dr | 'dk' constructor with the conjugate dk | 'setters' another domain re-configured
    through the length and dr setters | 'setters_dk' re-configured through length then dk | 'dk_then_length' dk constructor followed by a length change only"""
    via = sp.get('via', 'dr')
    L, dr = int(sp['L']), (sp['dr'] if isinstance(sp['dr'], int) else float(sp['dr']))     # a Python int spacing gives an integer grid
    if via == 'dk':
        return pyPRISM.Domain(length=L, dk=np.pi / (dr * L))
    if via == 'setters':
        d = pyPRISM.Domain(length=max(8, L // 2), dr=dr * 2)
        d.dr = dr
        d.length = L
        return d
    if via == 'dk_then_length':
        # configured through dk, then only the number of points is changed (dr must be kept, dk must follow)
        L0 = max(4, L // 2)
        d = pyPRISM.Domain(length=L0, dk=np.pi / (dr * L0))
        d.length = L
        return d
    if via == 'setters_dk':
        d = pyPRISM.Domain(length=max(8, L // 2), dk=0.37)
        d.length = L
        d.dk = np.pi / (dr * L)
        return d
    return pyPRISM.Domain(length=L, dr=dr)


VIAS = ['dr', 'dr', 'dr', 'dk', 'setters', 'setters_dk', 'dk_then_length']


LABEL_MODES = ['same', 'same', 'strings', 'substrings', 'ints_reversed', 'ints_shifted']


def choose_labels(rng, types):
    """real type labels for the spec names: other strings, strings that contain each other, integers that are not the list positions"""
    mode = str(rng.choice(LABEL_MODES))
    if mode == 'strings':
        return {t: 'type_' + t.lower() for t in types}
    if mode == 'substrings':
        return {t: 'C' + 'H' * i for i, t in enumerate(types)}            # 'C', 'CH', 'CHH': each label is a substring of the next
    if mode == 'ints_reversed':
        return {t: len(types) - 1 - i for i, t in enumerate(types)}
    if mode == 'ints_shifted':
        return {t: 10 * (i + 1) + 7 for i, t in enumerate(types)}
    return None


def lab(sp, t):
    return t if not sp.get('labels') else sp['labels'][t]


def sigma_of(sp, a, b):
    return (sp['d'][a] + sp['d'][b]) / 2.0


# ----------------------------------------------------------------------------- generators

DRS = [0.05, 0.1, 0.1, 0.2, 0.25, 0.125]
LENGTHS = [64, 100, 128, 200, 256]


def on_grid(rng, dr, lo, hi):
    m = int(rng.integers(int(round(lo / dr)), int(round(hi / dr)) + 1))
    return float(round(m * dr, 10))


def gen_pot(rng, sig, allow=('HS', 'HS', 'HCLJ', 'EXP', 'LJ', 'WCA'), strength=0.5, explicit_sigma=None):
    pt = str(rng.choice(list(allow)))
    eps = float(rng.uniform(0.05, strength))
    ps = {'t': pt}
    if pt == 'HCLJ':
        ps['eps'] = eps * float(rng.choice([-1, 1]))
    elif pt == 'EXP':
        ps['eps'] = eps * float(rng.choice([-1, 1]))
        ps['alpha'] = float(rng.uniform(0.2, 1.0))
    elif pt == 'LJ':
        ps['eps'] = eps
        mode = int(rng.integers(0, 3))
        if mode == 1:
            ps.update({'rcut': 2.5 * sig, 'shift': True})
        elif mode == 2:
            ps.update({'rcut': 2.0 * sig, 'shift': False})
    elif pt == 'WCA':
        ps['eps'] = 2 * eps
    if explicit_sigma is not None and rng.random() < 0.2:
        # the user states the contact distance on the potential itself: equal to the mean diameter or one grid step larger
        ps['sigma'] = float(sig + (explicit_sigma if rng.random() < 0.5 else 0.0))
    if pt in ('HS', 'HCLJ', 'EXP') and rng.random() < 0.15:
        ps['hv'] = float(rng.choice([1e5, 1e8, 4.0, 2.5]))          # incl. shoulders of a few kT (penetrable cores)
    return ps


def gen_clo(rng, pot, allow=('PY', 'PY', 'HNC', 'MSA', 'MS')):
    ct = str(rng.choice(list(allow)))
    if ct in ('PY', 'HNC'):
        hc = bool(rng.random() < 0.5)
    else:
        hc = True
    return {'t': ct, 'hc': hc, 'alias': bool(rng.random() < 0.3)}


def gen_spec(rng, rank=None, fam=None, lengths=LENGTHS, drs=DRS, closures=('PY', 'PY', 'HNC', 'MSA', 'MS'),
             eta_range=(1e-3, 0.4), chain_N=(2, 3, 5, 10, 30, 100)):
    rank = int(rng.choice([1, 1, 2, 2, 3])) if rank is None else rank
    types = list('ABC')[:rank]
    dr = float(rng.choice(drs))
    L = int(rng.choice(lengths))
    d = {t: on_grid(rng, dr, 0.6, 1.6) for t in types}
    fam = str(rng.choice(['atomic', 'polymer', 'mixed'])) if fam is None else fam
    eta = float(10 ** rng.uniform(np.log10(eta_range[0]), np.log10(eta_range[1])))
    w = rng.dirichlet(np.ones(rank))
    rho = {t: float(6 * eta * wi / np.pi / d[t] ** 3) for t, wi in zip(types, w)}
    kT = float(rng.choice([0.6, 1.0, 1.0, 2.0, 5.0]))
    if kT in (1.0, 2.0, 5.0) and rng.random() < 0.3:
        kT = int(kT)                 # users write kT=2, not kT=2.0
    pot, clo, om = {}, {}, {}
    for (i, j), (a, b) in pairs(types):
        sig = (d[a] + d[b]) / 2
        pot[pk(a, b)] = gen_pot(rng, sig, explicit_sigma=dr)
        clo[pk(a, b)] = gen_clo(rng, pot[pk(a, b)], closures)
    for t in types:
        if fam == 'atomic' or (fam == 'mixed' and rng.random() < 0.5):
            om[pk(t, t)] = {'t': 'SS'}
        else:
            om[pk(t, t)] = {'t': str(rng.choice(['G', 'FJC', 'RING'])), 'N': int(rng.choice(list(chain_N))), 's': d[t],
                            'alias': bool(rng.random() < 0.3)}
    for (i, j), (a, b) in pairs(types, diagonal=False):
        om[pk(a, b)] = {'t': str(rng.choice(['NI', 'NI', 'IM']))}
    return dict(types=types, dr=dr, L=L, d=d, rho=rho, kT=kT, pot=pot, clo=clo, om=om, fam=fam, eta=eta)


def easy_spec(rng, rank=2, L=128, dr=0.1, eta_max=0.25):
    """systems that converge reliably and fast: hard-core family, PY/HNC/MSA, short chains"""
    types = list('ABC')[:rank]
    d = {t: on_grid(rng, dr, 0.8, 1.4) for t in types}
    eta = float(rng.uniform(0.02, eta_max))
    w = rng.dirichlet(np.ones(rank) * 3)
    rho = {t: float(6 * eta * wi / np.pi / d[t] ** 3) for t, wi in zip(types, w)}
    kT = float(rng.choice([0.8, 1.0, 1.5, 2.5, 2.0]))
    if kT in (1.0, 2.0) and rng.random() < 0.4:
        kT = int(kT)
    pot, clo, om = {}, {}, {}
    for (i, j), (a, b) in pairs(types):
        sig = (d[a] + d[b]) / 2
        pot[pk(a, b)] = gen_pot(rng, sig, allow=('HS', 'HCLJ', 'EXP'), strength=0.3)
        clo[pk(a, b)] = {'t': str(rng.choice(['PY', 'PY', 'HNC', 'MSA'])), 'hc': True}
    for t in types:
        if rng.random() < 0.5:
            om[pk(t, t)] = {'t': 'SS'}
        else:
            om[pk(t, t)] = {'t': str(rng.choice(['G', 'FJC', 'RING'])), 'N': int(rng.choice([2, 3, 4, 6])), 's': d[t]}
    for (i, j), (a, b) in pairs(types, diagonal=False):
        om[pk(a, b)] = {'t': 'NI'}
    return dict(types=types, dr=dr, L=L, d=d, rho=rho, kT=kT, pot=pot, clo=clo, om=om, fam='easy', eta=eta)


def scaled_units(sp, f):
    """the same physical system written in another unit of length (all lengths x f, number densities / f^3): e.g. f = 1e-7 puts a
    'sigma = 1, dr = 0.1' system on a grid with dr = 1e-8, as a user working in centimetres or metres would have it"""
    out = copy.deepcopy(sp)
    out['dr'] = sp['dr'] * f
    out['d'] = {t: v * f for t, v in sp['d'].items()}
    out['rho'] = {t: v / f ** 3 for t, v in sp['rho'].items()}
    for ps in out['pot'].values():
        for k in ('sigma', 'alpha', 'rcut'):
            if ps.get(k) is not None:
                ps[k] = ps[k] * f
    for os_ in out['om'].values():
        if 's' in os_:
            os_['s'] = os_['s'] * f
    if out.get('sigma_table'):
        out['sigma_table'] = {k: v * f for k, v in out['sigma_table'].items()}
    return out


def integer_grid(sp, factor=None):
    """the same physical system in units in which the grid spacing is the Python integer 1 (np.arange then yields an
    INTEGER real-space grid): all lengths x 1/dr, densities x dr^3"""
    f = 1.0 / sp['dr']
    out = copy.deepcopy(sp)
    out['dr'] = 1
    out['d'] = {t: float(round(v * f, 8)) for t, v in sp['d'].items()}
    out['rho'] = {t: v / f ** 3 for t, v in sp['rho'].items()}
    for ps in out['pot'].values():
        for k in ('sigma', 'rcut', 'alpha'):
            if ps.get(k) is not None:
                ps[k] = float(round(ps[k] * f, 8)) if k != 'alpha' else ps[k] * f
    for os_ in out['om'].values():
        if 's' in os_:
            os_['s'] = float(round(os_['s'] * f, 8))
        if os_['t'] == 'ARR':
            os_['w'] = None          # tabulated on the old k grid: caller must regenerate
    out['via'] = 'dr'
    return out


def add_cross_omegas(sp, rng, p_pair=0.6, amp=(0.1, 0.8)):
    """tabulated cross intramolecular correlations (copolymer-like) on a random SUBSET of the unlike pairs - so that e.g. only
    types that are not neighbours in the type list are connected - smooth, positive or sign-changing (rigid bonds give sin(kl)/(kl))"""
    import pvmon.refmodel as R_
    kgrid = R_.grids(sp['L'], sp['dr'])[1]
    n = 0
    for (i, j), (a, b) in pairs(sp['types'], diagonal=False):
        if rng.random() < p_pair:
            if rng.random() < 0.5:
                w = float(rng.uniform(*amp)) * np.exp(-kgrid * float(rng.uniform(0.3, 1.0)))
            else:
                l = float(rng.uniform(0.5, 1.5)) * max(sp['d'][a], sp['d'][b])
                w = float(rng.uniform(*amp)) * np.sin(kgrid * l) / (kgrid * l)          # negative at some k
            sp['om'][pk(a, b)] = {'t': 'ARR', 'w': w.tolist()}
            n += 1
    return n


def hostile_edits(s, rng):
    """the user keeps working with the System after createPRISM: every table, the temperature, the domain and the
    objects stored in the tables are changed.  A PRISM object created earlier must not notice."""
    for t in s.types:
        s.density[t] = float(s.density[t] * rng.uniform(1.5, 3.0))
        s.diameter[t] = float(s.diameter[t] + rng.choice([1, 2, 3]) * s.domain.dr)
    s.kT = float(s.kT * rng.uniform(1.5, 3.0))
    for i, (a, b), U in s.potential.iterpairs():
        U.sigma = 7.77
        if hasattr(U, 'epsilon'):
            U.epsilon = -3.0
        s.closure[a, b].sigma = -1.0
        s.closure[a, b].potential = np.zeros(3)
    for i, (a, b), W in s.omega.iterpairs():
        if hasattr(W, 'length') and not isinstance(getattr(W, 'value', None), np.ndarray):
            W.length = 77
        if hasattr(W, 'sigma'):
            W.sigma = 2.5
    s.domain.dr = float(s.domain.dr * 2)
    s.domain.r[:] = -5.0


def spec_signature(sp):
    """category signature (no continuous values) used for the coverage histograms"""
    clo = '+'.join(sorted(v['t'] + ('hc' if v.get('hc') else '') for v in sp['clo'].values()))
    pot = '+'.join(sorted(v['t'] for v in sp['pot'].values()))
    om = '+'.join(sorted(v['t'] for v in sp['om'].values()))
    return 'rank%d/%s/%s/%s' % (len(sp['types']), clo, pot, om)


# ----------------------------------------------------------------------------- solving with a logical-step watchdog

class BudgetExceeded(Exception):
    pass


# numerical failures inside scipy's root finders on hostile trial steps: a failed solve, never a verdict
SOLVE_ERRORS = (ValueError, FloatingPointError, np.linalg.LinAlgError, OverflowError, ZeroDivisionError)


METHODS = [('krylov', {}), ('krylov', {'line_search': 'wolfe'}), ('df-sane', {}), ('anderson', {}), ('broyden1', {})]


def solve(p, method='krylov', options=None, guess=None, max_evals=4000):
    """PRISM.solve with an evaluation-count watchdog placed on the instance's cost attribute
    lookup path (class attribute is left alone so that class-level monitors still see calls).
    Returns the scipy result or None (not converged / budget exceeded / numerical failure)."""
    opt = {'disp': False, 'maxiter': 200}
    opt.update(options or {})
    counter = {'n': 0}
    cls_cost = type(p).cost

    def guarded(x):
        counter['n'] += 1
        if counter['n'] > max_evals:
            raise BudgetExceeded()
        return cls_cost(p, x)
    p.cost = guarded
    try:
        with np.errstate(all='ignore'):
            res = p.solve(guess=guess, method=method, options=opt)
    except BudgetExceeded:
        return None
    except SOLVE_ERRORS:
        # scipy raises on NaN/inf trial steps; a failed solve is not a verdict
        return None
    finally:
        try:
            del p.cost
        except AttributeError:
            pass
    return res
