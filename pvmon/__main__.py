"""CLI:  python -m pvmon check <id> [--tier quick|thorough] [--replay file] [--shards N]
        python -m pvmon setup
        python -m pvmon selftest [...]
"""
import argparse
import importlib
import json
import os
import subprocess
import sys
import tempfile
import time
import warnings

from . import core


def load_module(pid):
    return importlib.import_module('pvmon.checks.' + pid.lower())


def reach_start():
    """PVMON_REACH=<dir>: record which lines of the tree under test the workload of this worker executes (sys.monitoring LINE
    events, each location disabled after its first hit, so the cost is negligible).  Evidence of reach, never a verdict."""
    out = os.environ.get('PVMON_REACH')
    if not out or not hasattr(sys, 'monitoring'):
        return None
    mon = sys.monitoring
    tool = 4
    try:
        mon.use_tool_id(tool, 'pvmon-reach')
    except ValueError:
        return None
    root = os.path.join(core.REPO, 'pyPRISM') + os.sep
    seen = set()

    def on_line(code, line):
        fn = code.co_filename
        if fn.startswith(root):
            seen.add((fn[len(root):], line))
        return mon.DISABLE
    mon.register_callback(tool, mon.events.LINE, on_line)
    mon.set_events(tool, mon.events.LINE)
    return out, seen


def reach_stop(state, tag):
    if state is None:
        return
    out, seen = state
    os.makedirs(out, exist_ok=True)
    with open(os.path.join(out, '%s-%d.json' % (tag, os.getpid())), 'w') as f:
        json.dump(sorted(seen), f)


def worker(args):
    warnings.simplefilter('ignore')
    reach = reach_start()
    module = load_module(args.id)
    budget = args.time_budget
    ctx = core.Ctx(module.PID, args.tier, args.seed, args.shard, args.nshards, replay=False, time_budget=budget)
    if hasattr(module, 'setup'):
        module.setup(ctx)
    for case in module.cases(ctx):
        core.execute(ctx, module, case)
        if ctx.expired():
            break
    if hasattr(module, 'finish'):
        module.finish(ctx)
    with open(args.partial, 'w') as f:
        json.dump(core.jsonable_case(ctx.partial()), f)
    reach_stop(reach, args.id)
    return 0


def replay(args):
    warnings.simplefilter('ignore')
    module = load_module(args.id)
    with open(args.replay) as f:
        rec = json.load(f)
    ctx = core.Ctx(module.PID, rec.get('tier', 'quick'), rec.get('seed', 0), rec.get('shard', 0),
                   rec.get('nshards', 1), replay=True)
    if hasattr(module, 'setup'):
        module.setup(ctx)
    core.execute(ctx, module, rec['case'])
    if hasattr(module, 'finish'):
        module.finish(ctx)
    for mech, n in ctx.known.items():
        print('KNOWN-FINDING: property=%s %s' % (module.PID, ctx.known_msgs.get(mech, mech)))
    if ctx.violations:
        return 1
    print('replay: no violation reproduced (skipped=%s)' % dict(ctx.skipped))
    return 0


def workdir():
    d = os.path.join(core.OUT, '.work')
    os.makedirs(d, exist_ok=True)
    return d


def check(args):
    module = load_module(args.id)
    tier = args.tier
    t0 = time.time()
    nshards = args.shards or module.SHARDS.get(tier, 1)
    tb = getattr(module, 'TIME_BUDGET', {}).get(tier)
    if args.time_budget:
        tb = args.time_budget
    hard = (tb * 3 + 120) if tb else getattr(module, 'HARD_TIMEOUT', {}).get(tier, 3600)
    work = tempfile.mkdtemp(prefix='%s-' % module.PID, dir=workdir())
    procs = []
    for i in range(nshards):
        part = os.path.join(work, 'part%d.json' % i)
        cmd = [sys.executable, '-u', '-m', 'pvmon', 'worker', module.PID, '--tier', tier, '--seed', str(args.seed),
               '--shard', str(i), '--nshards', str(nshards), '--partial', part]
        if tb:
            cmd += ['--time-budget', str(tb)]
        log = open(os.path.join(work, 'log%d.txt' % i), 'w')
        procs.append((i, part, subprocess.Popen(cmd, stdout=log, stderr=subprocess.STDOUT), log))
    parts = []
    broken = []
    timed_out = []
    for i, part, p, log in procs:
        remaining = max(1.0, hard - (time.time() - t0))
        try:
            rc = p.wait(timeout=remaining)
        except subprocess.TimeoutExpired:
            p.kill()
            p.wait()
            timed_out.append(i)
            rc = None
        log.close()
        out = open(log.name).read()
        # forward VIOLATION lines / diagnostics from the worker
        for line in out.splitlines():
            if line.startswith('VIOLATION') or line.startswith('  mechanism='):
                print(line)
        if rc == 0 and os.path.exists(part):
            with open(part) as f:
                parts.append(json.load(f))
        elif rc is not None:
            broken.append((i, rc, out[-3000:]))
    if broken and all(any(l.startswith('INCONCLUSIVE property=') for l in out.splitlines()) for i, rc, out in broken):
        print([l for l in broken[0][2].splitlines() if l.startswith('INCONCLUSIVE property=')][0])
        return 2
    if broken:
        for i, rc, out in broken:
            print('HARNESS-ERROR property=%s worker=%d rc=%s\n%s' % (module.PID, i, rc, out))
        return 3
    if not parts:
        print('INCONCLUSIVE property=%s reason=all workers hit the wall-clock watchdog' % module.PID)
        return 2
    merged = core.merge(parts)
    wall = time.time() - t0
    reasons = []
    for hook, minimum in module.MINIMA.get(tier, {}).items():
        if merged['hooks'].get(hook, 0) < minimum:
            reasons.append('%s=%d<%d' % (hook, merged['hooks'].get(hook, 0), minimum))
    if len(merged['sigs']) < 2:
        reasons.append('distinct_nontrivial=%d<2' % len(merged['sigs']))
    if timed_out:
        reasons.append('workers_timed_out=%s' % timed_out)
    if hasattr(module, 'inconclusive'):
        reasons += module.inconclusive(merged, tier)
    extra = {}
    if hasattr(module, 'evidence_extra'):
        extra = module.evidence_extra(merged)
    path = core.write_evidence(module, tier, args.seed, merged, wall, reasons, extra)
    for mech, n in sorted(merged['known'].items()):
        print('KNOWN-FINDING: property=%s %s [mechanism=%s, observed %d times]' % (
            module.PID, merged['known_msgs'].get(mech, ''), mech, n))
    nviol = len(merged['violations'])
    print('%s %s seed=%d: cases=%d distinct_nontrivial=%d monitor_events=%d skipped=%d violations=%d known=%d wall=%.1fs -> %s' % (
        module.PID, tier, args.seed, merged['evaluations'], len(merged['sigs']), sum(merged['hooks'].values()),
        sum(merged['skipped'].values()), nviol, len(merged['known']), wall, os.path.relpath(path, core.OUT)))
    try:
        import shutil
        shutil.rmtree(work)
    except Exception:
        pass
    if nviol:
        return 1
    if reasons:
        print('INCONCLUSIVE property=%s reason=%s' % (module.PID, ';'.join(reasons)))
        return 2
    return 0


def main(argv=None):
    argv = sys.argv[1:] if argv is None else argv
    if argv and argv[0] == 'selftest':
        from . import selftest
        return selftest.main(argv[1:])
    ap = argparse.ArgumentParser(prog='pv')
    sub = ap.add_subparsers(dest='cmd', required=True)
    c = sub.add_parser('check')
    c.add_argument('id')
    c.add_argument('--tier', default=os.environ.get('VERIF_TIER', 'quick'), choices=['quick', 'thorough'])
    c.add_argument('--seed', type=int, default=int(os.environ.get('VERIF_SEED', '0') or 0))
    c.add_argument('--replay')
    c.add_argument('--shards', type=int, default=0)
    c.add_argument('--time-budget', type=float, default=0)
    w = sub.add_parser('worker')
    w.add_argument('id')
    w.add_argument('--tier', required=True)
    w.add_argument('--seed', type=int, required=True)
    w.add_argument('--shard', type=int, required=True)
    w.add_argument('--nshards', type=int, required=True)
    w.add_argument('--partial', required=True)
    w.add_argument('--time-budget', type=float, default=None)
    sub.add_parser('setup')
    s = sub.add_parser('selftest')
    s.add_argument('rest', nargs=argparse.REMAINDER)
    args = ap.parse_args(argv)
    if args.cmd == 'setup':
        import pyPRISM  # noqa
        print('pv setup: ok (pyPRISM from %s)' % os.path.dirname(pyPRISM.__file__))
        return 0
    if args.cmd == 'worker':
        return worker(args)
    if args.cmd == 'selftest':
        from . import selftest
        return selftest.main(args.rest)
    if args.cmd == 'check':
        args.id = args.id.upper()
        if args.replay:
            return replay(args)
        return check(args)


if __name__ == '__main__':
    try:
        rc = main()
    except SystemExit:
        raise
    except BaseException:  # a crash of the harness must never look like a verdict (exit 1 is reserved for VIOLATION)
        import traceback
        traceback.print_exc()
        print('HARNESS-ERROR %s' % ' '.join(sys.argv[1:]))
        rc = 3
    sys.exit(rc)
