"""C10 - Potentials equal their definitions, with consistent cores, cut-offs and sigma.

Monitor shapes: (1) post-condition contract on the real `calculate` of every potential class (documented
formula from the object's own constructor parameters, r unmodified, result a fresh array); (2) system level:
after createPRISM the potential handed to every pair's closure is compared with the reference evaluated
from the *user's* inputs, and the contact rule (grid point within 1e-6 of sigma is inside the core, for every
pair alike) is checked on the live PRISM object.
"""
import copy

import numpy as np

import pyPRISM
from pyPRISM.potential.HardSphere import HardSphere
from pyPRISM.potential.Exponential import Exponential
from pyPRISM.potential.LennardJones import LennardJones
from pyPRISM.potential.HardCoreLennardJones import HardCoreLennardJones
from pyPRISM.potential.WeeksChandlerAndersen import WeeksChandlerAndersen

from .. import suite as SUITE
from .. import refmodel as R
from .. import gen as G

PID = 'C10'
RULE = ('function cases = (potential class, epsilon of either sign where allowed, alpha, sigma on/off/below/above the grid, r_cut, shift, '
        'high_value, arbitrary or Domain grid of 1-1024 points); each runs the direct call under the contract plus permuted / subsampled / '
        'single-element / repeated / read-only-replica calls and the cut-off / continuity / sign probes. system cases = 1-3 component systems '
        'whose diameters are m*dr (m <= 200, dr in 0.1,0.05,0.025,0.2,0.125, incl. the m with floating-point-noisy grid values and deliberate '
        '+-5e-7 offsets), explicit or defaulted sigma; after createPRISM the closure potential and the contact rule are checked for every pair. '
        'non-trivial = function case with >= 1 point on each side of sigma / system case with >= 1 pair whose sigma coincides with a grid point; '
        'distinct = distinct case digests')
ASSUMPTIONS = ['documented formulas; Exponential uses -epsilon*exp(-(r-sigma)/alpha) (class summary, cited paper and unit test; the docstring formula omits the sign)',
               'at function level the core is the literal r <= sigma; the 1e-6 contact tolerance applies to systems (System.check tolerance)']
MINIMA = {'quick': {'potential.calculate:HS': 200, 'potential.calculate:EXP': 200, 'potential.calculate:LJ': 200, 'potential.calculate:HCLJ': 200,
                    'potential.calculate:WCA': 200, 'system.pair_checked': 300, 'system.contact_point_checked': 100},
          'thorough': {'potential.calculate:HS': 10000, 'potential.calculate:EXP': 10000, 'potential.calculate:LJ': 10000, 'potential.calculate:HCLJ': 10000,
                       'potential.calculate:WCA': 10000, 'system.pair_checked': 10000, 'system.contact_point_checked': 3000}}
SHARDS = {'quick': 4, 'thorough': 16}
TIME_BUDGET = {'quick': 45, 'thorough': 240}

KINDS = {'HS': HardSphere, 'EXP': Exponential, 'LJ': LennardJones, 'HCLJ': HardCoreLennardJones, 'WCA': WeeksChandlerAndersen}
_S = {'ctx': None, 'on': True, 'depth': 0}
TOL = R.CONTACT_TOL


def kind_of(obj):
    for k in ('WCA', 'HS', 'EXP', 'HCLJ', 'LJ'):
        if isinstance(obj, KINDS[k]):
            return k
    return None


def spec_of(obj):
    k = kind_of(obj)
    sp = {'t': k, 'sigma': obj.sigma}
    if k in ('HS', 'EXP', 'HCLJ'):
        sp['hv'] = obj.high_value
    if k in ('EXP', 'LJ', 'HCLJ', 'WCA'):
        sp['eps'] = obj.epsilon
    if k == 'EXP':
        sp['alpha'] = obj.alpha
    if k == 'LJ':
        sp['rcut'] = obj.rcut
        sp['shift'] = obj.shift
    return sp


def agree(got, ref, rtol=1e-12):
    got = np.asarray(got, dtype=float)
    ref = np.asarray(ref, dtype=float)
    if got.shape != ref.shape:
        return False, np.inf
    with np.errstate(all='ignore'):
        err = np.abs(got - ref)
        ok = (err <= rtol * np.abs(ref) + 1e-300) | (got == ref) | (np.isnan(got) & np.isnan(ref))
        rel = np.where(ok, 0.0, err / np.maximum(np.abs(ref), 1e-300))
    fin = np.isfinite(rel)
    return bool(ok.all()), (float(rel[fin].max()) if fin.any() else (0.0 if ok.all() else np.inf)) if rel.size else 0.0


def contract(self, r, out, r0, spec):
    ctx = _S['ctx']
    k = spec['t']
    ctx.hook('potential.calculate:%s' % k)
    if not np.array_equal(np.asarray(r), r0, equal_nan=True):
        ctx.violation('potential:modified-r', '%s.calculate modified its r argument' % type(self).__name__)
    if isinstance(out, np.ndarray) and isinstance(r, np.ndarray) and np.shares_memory(out, r):
        ctx.violation('potential:result-aliases-r', '%s.calculate returns memory shared with r' % type(self).__name__)
    ref = R.u_ref(spec, r0, spec['sigma'])
    single = isinstance(r, np.ndarray) and r.dtype == np.float32
    if single:
        # single-precision distances: the result is only expected to single precision (12th powers, cancellation between them)
        with np.errstate(all='ignore'):
            okv = np.isclose(np.asarray(out, dtype=float), ref, rtol=2e-4, atol=2e-4 * abs(spec.get('eps', 1.0)) * (1 + np.abs(R.u_ref(dict(spec, eps=abs(spec.get('eps', 1.0))), r0, spec['sigma']))) if False else 2e-4 * abs(spec.get('eps', 1.0)), equal_nan=True)
            okv |= (np.asarray(out, dtype=float) == ref)
            big = np.abs(ref) > 1e3 * abs(spec.get('eps', 1.0))
            okv |= big & np.isclose(np.asarray(out, dtype=float), ref, rtol=1e-3)
        ok, e = bool(okv.all()), 0.0 if okv.all() else 1.0
    else:
        ok, e = agree(out, ref)
        ctx.observe('potential_vs_definition/1e-12', e / 1e-12)
    if not ok:
        out = np.asarray(out, dtype=float)
        with np.errstate(all='ignore'):
            bad = ~(np.isclose(out, ref, rtol=1e-12, atol=0, equal_nan=True))
        s = spec['sigma']
        region = 'core' if (k in ('HS', 'EXP', 'HCLJ') and np.any(bad & (r0 <= s))) else ('beyond-cut' if (k in ('LJ', 'WCA') and np.any(bad & (ref == 0))) else 'tail')
        ctx.violation('potential:%s-differs-from-definition:%s' % (k, region),
                      '%s%s differs from its documented u(r): rel err %.3g at r=%r (sigma=%r)' % (type(self).__name__, {kk: vv for kk, vv in spec.items() if kk != 't'}, e, r0[bad][:3].tolist(), s))


def attach(ctx):
    _S['ctx'] = ctx
    for k, cls in KINDS.items():
        if '_pvmon_orig_calculate' in cls.__dict__:
            continue
        orig = cls.__dict__['calculate']

        def make(orig, cls):
            def calculate(self, r):
                if _S['ctx'] is None or not _S['on'] or self.sigma is None:
                    return orig(self, r)
                # WCA.calculate delegates to LennardJones.calculate: judge the outermost call only
                _S['depth'] += 1
                try:
                    r0 = np.array(r, dtype=float, copy=True)
                    spec = spec_of(self) if _S['depth'] == 1 else None
                    out = orig(self, r)
                finally:
                    _S['depth'] -= 1
                if spec is not None:
                    contract(self, r, out, r0, spec)
                return out
            return calculate
        cls._pvmon_orig_calculate = orig
        cls.calculate = make(orig, cls)


def setup(ctx):
    attach(ctx)


# ----------------------------------------------------------------------------- cases

DRS = [0.1, 0.05, 0.025, 0.2, 0.125, 0.25]


def cases(ctx):
    if ctx.mine(1):
        yield {'kind': 'repo_suite'}          # the repository's own tests, run in-process under this check's monitors
    rng = ctx.rng('c10')
    n = ctx.budget(1500, 60000)
    kinds = list(KINDS)
    for it in range(n):
        yield {'kind': 'func', 'pot': kinds[it % 5], 'seed': int(rng.integers(0, 2 ** 31)),
               'grid': str(rng.choice(['domain', 'domain', 'arbitrary', 'single'])), 'sig': str(rng.choice(['ongrid', 'ongrid', 'inside', 'below', 'above']))}
    # systematic: sigma = m*dr for every m, both as a like pair (d=sigma) and as an unlike pair
    idx = 0
    mmax = 200 if ctx.thorough() else 60
    for dr in DRS[:5]:
        for m in range(2, mmax + 1):
            idx += 1
            if not ctx.mine(idx):
                continue
            if not ctx.thorough() and idx % 3 != ctx.seed % 3:
                continue
            yield {'kind': 'system', 'dr': dr, 'm': [m], 'seed': idx, 'offset': 0.0}
    n = ctx.budget(250, 8000)
    for it in range(n):
        dr = float(rng.choice(DRS[:5]))
        rank = int(rng.integers(1, 4))
        yield {'kind': 'system', 'dr': dr, 'm': [int(rng.integers(2, 41)) for _ in range(rank)], 'seed': int(rng.integers(0, 2 ** 31)),
               'offset': float(rng.choice([0.0, 0.0, 0.0, 5e-7, -5e-7, 1e-3]))}


def mk(kind, rng, sigma):
    eps = float(rng.uniform(0.05, 3.0))
    hv = float(rng.choice([1e6, 1e6, 1e3, 1e9]))
    if kind == 'HS':
        return {'t': 'HS', 'sigma': sigma, 'hv': hv}
    if kind == 'EXP':
        return {'t': 'EXP', 'sigma': sigma, 'hv': hv, 'eps': eps * float(rng.choice([-1, 1])), 'alpha': float(10 ** rng.uniform(-1.3, 0.7))}
    if kind == 'HCLJ':
        return {'t': 'HCLJ', 'sigma': sigma, 'hv': hv, 'eps': eps * float(rng.choice([-1, 1]))}
    if kind == 'LJ':
        mode = int(rng.integers(0, 3))
        sp = {'t': 'LJ', 'sigma': sigma, 'eps': eps}
        if mode:
            sp['rcut'] = float(sigma * rng.uniform(1.05, 4.0))
            sp['shift'] = bool(mode == 2)
        return sp
    return {'t': 'WCA', 'sigma': sigma, 'eps': eps}


def run_func(ctx, case):
    rng = np.random.default_rng(case['seed'])
    g = case['grid']
    if g == 'domain':
        d = pyPRISM.Domain(length=int(rng.choice([16, 55, 64, 128, 200, 512, 1024])), dr=float(rng.choice(DRS)))
        r = np.array(d.r)
    elif g == 'arbitrary':
        r = np.sort(rng.uniform(0.05, 6.0, size=int(rng.integers(2, 200))))
        if rng.random() < 0.3:
            r = r[::-1].copy()
    else:
        r = np.array([float(rng.uniform(0.05, 6.0))])
    if g == 'domain' and rng.random() < 0.25:
        # Domain(dr=1) yields an INTEGER grid; float32 arrays come from trajectory files
        r = np.arange(1, len(r) + 1) if rng.random() < 0.6 else r.astype(np.float32)
    sk = case['sig']
    if r.dtype == np.float32 and sk in ('above', 'inside'):
        sk = 'ongrid' if len(r) > 20 else 'below'      # (sigma/r)^12 must stay inside the single-precision range: sigma <= 20 r_min
    if sk == 'ongrid':
        sigma = float(r[int(rng.integers(0, len(r) if r.dtype != np.float32 else min(len(r), 20)))])
    elif sk == 'inside':
        sigma = float(rng.uniform(float(r.min()), float(r.max()))) if len(r) > 1 else float(r[0] * rng.uniform(0.5, 2))
    elif sk == 'below':
        sigma = float(r.min() * 0.5)
    else:
        sigma = float(r.max() * 1.2)
    spec = mk(case['pot'], rng, sigma)
    with np.errstate(all='ignore'):
        U = G.mk_pot(spec)
        out = np.array(U.calculate(np.array(r)), dtype=float)        # contract evaluated inside
        out2 = np.array(U.calculate(np.array(r)), dtype=float)
        if not np.array_equal(out, out2, equal_nan=True):
            ctx.violation('potential:not-repeatable', '%s: second identical call differs' % case['pot'])
        out3 = np.array(G.mk_pot(spec).calculate(np.array(r)), dtype=float)
        if not np.array_equal(out, out3, equal_nan=True):
            ctx.violation('potential:not-repeatable', '%s: identically constructed object differs' % case['pot'])
        # distances held in a 2-D table (rows of pair distances, a distance matrix) or as a (n,1,1) column like Domain.long_r: elementwise
        if out.ndim == 1 and len(r) >= 4 and r.dtype == float and case['seed'] % 3 == 0:
            ctx.hook('multidimensional_r')
            n2 = len(r) // 2 * 2
            for shp in ((2, n2 // 2), (n2 // 2, 2), (len(r), 1, 1)):
                rr = np.array(r[:n2] if shp[0] * (shp[1] if len(shp) > 1 else 1) == n2 and len(shp) == 2 else r).reshape(shp)
                try:
                    om = np.array(G.mk_pot(spec).calculate(np.array(rr)), dtype=float)
                except Exception:   # noqa - only a silently wrong table is judged
                    continue
                want = (out[:n2] if rr.size == n2 and len(shp) == 2 else out).reshape(shp)
                if om.shape != want.shape or not np.array_equal(om, want, equal_nan=True):
                    ctx.violation('potential:not-elementwise:multidimensional-r', '%s: evaluation on r of shape %s differs from the element-by-element values' % (case['pot'], shp))
                    break
        # a parameter re-assigned on an existing object (a sweep that re-uses one potential): whichever value the object goes by, the
        # result must be ONE documented curve (the one for the old or the one for the new value), not a mixture
        if spec['t'] in ('LJ', 'WCA', 'HCLJ', 'EXP') and out.ndim == 1 and r.dtype == float and case['seed'] % 4 == 1:
            ctx.hook('parameter_reassigned_on_object')
            U3 = G.mk_pot(spec)
            U3.calculate(np.array(r))
            new_eps = spec['eps'] * 0.5
            U3.epsilon = new_eps
            _S['on'] = False               # the per-call contract reads the parameters off the object; here either value is acceptable
            try:
                o3 = np.array(U3.calculate(np.array(r)), dtype=float)
            finally:
                _S['on'] = True
            olds = np.array(R.u_ref(spec, r, spec.get('sigma')), dtype=float)
            news = np.array(R.u_ref(dict(spec, eps=new_eps), r, spec.get('sigma')), dtype=float)
            away = R.branch_mask(spec, r, spec.get('sigma'))
            ok_old, _ = agree(o3[away], olds[away], rtol=1e-10)
            ok_new, _ = agree(o3[away], news[away], rtol=1e-10)
            if not (ok_old or ok_new):
                ctx.violation('potential:inconsistent-after-parameter-reassignment', '%s: after epsilon was re-assigned on the object (%r -> %r) the result is neither the documented curve for the old nor for the new value' % (case['pot'], spec['eps'], new_eps))
        # an array returned earlier survives later calls on the same object
        raw = U.calculate(np.array(r))
        keep = np.array(raw, copy=True)
        U.calculate(np.array(r[::-1]))
        U.calculate(np.array(r) * 1.5)
        if not np.array_equal(np.asarray(raw), keep, equal_nan=True):
            ctx.violation('potential:earlier-result-overwritten', '%s: an array returned by calculate changed after later calls' % case['pot'])
        # the same object re-used after sigma is changed (as createPRISM does on its private copy)
        U2 = G.mk_pot(spec)
        U2.calculate(np.array(r))
        U2.sigma = sigma * 1.37
        o = np.array(U2.calculate(np.array(r)), dtype=float)
        o_f = np.array(G.mk_pot(dict(spec, sigma=sigma * 1.37)).calculate(np.array(r)), dtype=float)
        if not np.array_equal(o, o_f, equal_nan=True):
            ctx.violation('potential:result-depends-on-earlier-calls', '%s: object re-used with another sigma differs from a fresh object' % case['pot'])
        ctx.hook('elementwise_probe')
        perm = rng.permutation(len(r))
        o = np.array(G.mk_pot(spec).calculate(np.array(r[perm])), dtype=float)
        if not np.array_equal(o, out[perm], equal_nan=True):
            ctx.violation('potential:not-elementwise:permutation', '%s: value at r_i changes when r is permuted' % case['pot'])
        sub = np.sort(rng.choice(len(r), size=max(1, len(r) // 3), replace=False))
        o = np.array(G.mk_pot(spec).calculate(np.array(r[sub])), dtype=float)
        if not np.array_equal(o, out[sub], equal_nan=True):
            ctx.violation('potential:not-elementwise:subsample', '%s: value at r_i depends on the other points' % case['pot'])
        for i in [int(x) for x in rng.choice(len(r), size=min(len(r), 3), replace=False)]:
            o = np.array(G.mk_pot(spec).calculate(np.array(r[i:i + 1])), dtype=float)
            if not np.array_equal(o, out[i:i + 1], equal_nan=True):
                ctx.violation('potential:not-elementwise:single', '%s: single-point evaluation differs' % case['pot'])
        rr = np.array(r)
        rr.flags.writeable = False
        try:
            o = np.array(G.mk_pot(spec).calculate(rr), dtype=float)
            if not np.array_equal(o, out, equal_nan=True):
                ctx.violation('potential:readonly-replica-differs', '%s: result changes when r is read-only' % case['pot'])
        except ValueError as e:
            if 'read-only' in str(e):
                import traceback
                fs = traceback.extract_tb(e.__traceback__)[-1]
                ctx.violation('potential:writes-into-r', '%s writes into r at %s:%d (%s)' % (case['pot'], fs.filename.split('/')[-1], fs.lineno, fs.line))
            else:
                raise
        # ---- stated qualitative properties, probed directly
        k = case['pot']
        if k == 'LJ' and spec.get('rcut') is not None:
            rc = spec['rcut']
            probe = np.array([rc * (1 - 1e-12), rc, rc * (1 + 1e-12), rc * 1.5, rc * 10])
            o = np.array(G.mk_pot(spec).calculate(probe), dtype=float)
            if np.any(o[2:] != 0.0):
                ctx.violation('potential:LJ-nonzero-beyond-cut', 'LennardJones is %r beyond r_cut=%r' % (o[2:].tolist(), rc))
            if spec.get('shift') and not abs(o[0]) <= 1e-9 * abs(spec['eps']):
                ctx.violation('potential:LJ-shift-discontinuous', 'shifted LennardJones jumps by %.3g at r_cut (eps=%r)' % (o[0], spec['eps']))
            ctx.hook('cutoff_probe')
        if k == 'WCA':
            rc = sigma * 2 ** (1.0 / 6.0)
            probe = np.array([sigma * 0.8, sigma, rc * (1 - 1e-12), rc * (1 + 1e-12), 2 * rc])
            o = np.array(G.mk_pot(spec).calculate(probe), dtype=float)
            if np.any(o < -1e-12 * spec['eps']):
                ctx.violation('potential:WCA-negative', 'WCA is negative: %r' % o.tolist())
            if np.any(o[3:] != 0.0):
                ctx.violation('potential:WCA-nonzero-beyond-cut', 'WCA is %r beyond 2^(1/6) sigma' % o[3:].tolist())
            if not abs(o[2]) <= 1e-9 * spec['eps']:
                ctx.violation('potential:WCA-discontinuous', 'WCA jumps by %.3g at 2^(1/6) sigma' % o[2])
            if np.any(out < -1e-12 * spec['eps']):
                ctx.violation('potential:WCA-negative', 'WCA is negative on the grid (min %.3g)' % out.min())
            ctx.hook('cutoff_probe')
    if np.any(r <= sigma) and np.any(r > sigma):
        ctx.nontrivial(case)
    ctx.count('potential', case['pot'])
    ctx.count('grid', g)
    ctx.count('r_dtype', str(r.dtype))
    ctx.count('sigma_kind', sk)
    ctx.sample({'potential': spec, 'grid': g, 'n': len(r), 'r_head': r[:3], 'u_head': out[:3]}, limit=3)


def run_system(ctx, case):
    rng = np.random.default_rng(case['seed'])
    dr = float(case['dr'])
    ms = [int(m) for m in case['m']]
    types = list('ABC')[:len(ms)]
    L = int(max(64, min(1024, 2 ** int(np.ceil(np.log2(max(ms) * 2.5 + 8))))))
    if case['seed'] % 11 == 0:
        # a site larger than the whole domain (contact distance beyond r_max): every grid point is inside that core
        L = int(max(4, min(ms) // 2 + 1))
        ctx.hook('system.sigma_beyond_rmax')
    d = {t: float(m * dr) for t, m in zip(types, ms)}
    if len(ms) == 1 and rng.random() < 0.5:
        # make an unlike pair whose MEAN is m*dr
        m = ms[0]
        k = int(rng.integers(1, m)) if m > 1 else 0
        types = ['A', 'B']
        d = {'A': float((m - k) * dr), 'B': float((m + k) * dr)}
    off = float(case.get('offset', 0.0))
    if off:
        d = {t: v + off for t, v in d.items()}
    kT = float(rng.choice([0.5, 1.0, 2.0]))
    sp = dict(types=types, dr=dr, L=L, d=d, rho={t: 0.05 for t in types}, kT=kT, pot={}, clo={}, om={})
    for (i, j), (a, b) in G.pairs(types):
        sig = (d[a] + d[b]) / 2
        ps = mk(str(rng.choice(list(KINDS))), rng, sig)       # r_cut relative to the mean diameter
        if ps['t'] == 'EXP' and case['seed'] % 3 == 0:
            ps['alpha'] = float(sig / rng.uniform(720.0, 5000.0))     # a very short-ranged attraction on a large site: exp(sigma/alpha) is not representable
        ps['sigma'] = None
        if rng.random() < 0.3:
            ps['sigma'] = float(sig if rng.random() < 0.5 else round(rng.integers(2, 40) * dr, 10))     # explicit sigma
        sp['pot'][G.pk(a, b)] = ps
        sp['clo'][G.pk(a, b)] = {'t': str(rng.choice(['PY', 'HNC', 'MSA', 'MS'])), 'hc': bool(rng.random() < 0.7)}
    for t in types:
        sp['om'][G.pk(t, t)] = {'t': 'SS'}
    for (i, j), (a, b) in G.pairs(types, diagonal=False):
        sp['om'][G.pk(a, b)] = {'t': 'NI'}
    s = G.build(sp)
    with np.errstate(all='ignore'):
        p = s.createPRISM()
    any_contact = judge_system(ctx, s, p, sp, d, kT, dr, rng, 'fresh System')
    if case['seed'] % 3 == 0:
        # potential objects that one PRISM object has already wired (taken from PRISM.sys.potential) are assigned to ANOTHER System with
        # other diameters: a sigma that was never given explicitly is still the mean of the diameters of the pair it now belongs to
        ctx.hook('system.potentials_recycled_from_prism_sys')
        d2 = {t: v + 2 * dr for t, v in d.items()}
        sp2 = dict(sp, d=d2, pot={k: dict(v, **({'rcut': v['rcut']} if 'rcut' in v else {})) for k, v in sp['pot'].items()})
        s2 = G.build(sp2, omit=set('pot:' + k for k in sp['pot']))
        for (i, j), (a, b) in G.pairs(types):
            s2.potential[a, b] = p.sys.potential[a, b]
        with np.errstate(all='ignore'):
            p2 = s2.createPRISM()
        # the user-level expectation: explicit sigmas stay, defaulted ones follow the new diameters (r_cut etc. are the objects' own)
        any_contact |= judge_system(ctx, s2, p2, sp2, d2, kT, dr, rng, 'System re-using the potential objects of an earlier PRISM.sys', users_sigma_check=False)
    if any_contact:
        ctx.nontrivial(case)
    ctx.count('system_rank', len(types))
    ctx.sample({'system': {'dr': dr, 'L': L, 'd': d, 'pot': sp['pot'], 'clo': sp['clo']}}, limit=5)


def judge_system(ctx, s, p, sp, d, kT, dr, rng, what, users_sigma_check=True):
    types = sp['types']
    r = np.asarray(p.sys.domain.r)
    any_contact = False
    for (i, j), (a, b) in G.pairs(types):
        ctx.hook('system.pair_checked')
        ps = sp['pot'][G.pk(a, b)]
        sig_d = (d[a] + d[b]) / 2.0
        sig_u = ps['sigma'] if ps.get('sigma') is not None else sig_d
        clo = p.sys.closure[a, b]
        got = np.asarray(clo.potential, dtype=float) * kT
        # (1) the user's own potential object is untouched (sigma stays None when defaulted)
        if users_sigma_check and s.potential[a, b].sigma != ps.get('sigma'):
            ctx.violation('system:sigma-leaks-into-users-potential', 'createPRISM wrote sigma=%r into the System\'s own %s potential (was %r)' % (s.potential[a, b].sigma, ps['t'], ps.get('sigma')))
        # (2) which sigma was used: explicit one, otherwise the arithmetic mean of the diameters (to the contact tolerance)
        for name, sig, used in (('potential', sig_u, None), ('closure', sig_d, clo.sigma)):
            if used is not None and abs(used - sig) > TOL:
                ctx.violation('system:closure-sigma-not-mean-diameter', 'pair %s-%s: closure sigma=%r, (d_a+d_b)/2=%r' % (a, b, used, sig))
        # (3) tail / core values away from contact points, for the sigma the user specified
        ref_a = R.u_ref(ps, r, sig_u)
        ref_b = R.u_ref(dict(ps, sigma=R.snap(sig_u, r)), r, None)
        away = R.contact_mask(r, sig_u)
        ok_a, ea = agree(got[away], ref_a[away], rtol=1e-10)
        ok_b, eb = agree(got[away], ref_b[away], rtol=1e-10)
        ctx.observe('system_potential/1e-10', min(ea, eb) / 1e-10)
        if not (ok_a or ok_b):
            ctx.violation('system:closure-potential-wrong:%s' % ps['t'], what + ': pair %s-%s: potential/kT handed to the closure differs from %s%s on the domain grid with sigma=%r, kT=%r (rel err %.3g)' % (
                a, b, ps['t'], {k: v for k, v in ps.items() if k != 't'}, sig_u, kT, min(ea, eb)))
        # (4) the contact rule
        ci = np.where(~away)[0]
        if len(ci) and R.hard_core_family(ps):
            any_contact = True
            c = int(ci[0])
            ctx.hook('system.contact_point_checked')
            hv = ps.get('hv', 1e6)
            noisy = 'above' if r[c] > sig_u else ('below' if r[c] < sig_u else 'equal')
            ctx.count('contact_fp_noise', noisy)
            if not abs(got[c] - hv) <= 1e-12 * abs(hv):
                ctx.violation('system:contact-point-outside-core:potential', what + ': pair %s-%s (%s, dr=%r): grid point r=%r coincides with sigma=%r (|diff|=%.1e < 1e-6) but the potential there is the tail value %r, not the overlap value' % (
                    a, b, ps['t'], dr, float(r[c]), sig_u, abs(r[c] - sig_u), float(got[c])))
            if c + 1 < len(r) and abs(got[c + 1] - hv) <= 1e-12 * abs(hv):
                ctx.violation('system:core-extends-past-contact', 'pair %s-%s: the point after contact r=%r is still inside the core' % (a, b, float(r[c + 1])))
        cd = np.where(~R.contact_mask(r, sig_d))[0]
        if len(cd) and sp['clo'][G.pk(a, b)]['hc']:
            any_contact = True
            c = int(cd[0])
            ctx.hook('system.contact_point_checked')
            gam = rng.normal(size=len(r))
            with np.errstate(all='ignore'):
                cc = np.asarray(clo.calculate(r, gam), dtype=float)
            if not abs(cc[c] + 1 + gam[c]) <= 8 * np.finfo(float).eps * (1 + abs(gam[c])):
                ctx.violation('system:contact-point-outside-core:closure', 'pair %s-%s (dr=%r): grid point r=%r coincides with sigma=%r but the hard-core closure does not return -1-gamma there' % (
                    a, b, dr, float(r[c]), sig_d))
    return any_contact


def run_case(ctx, case):
    if case.get('kind') == 'repo_suite':
        return SUITE.run(ctx, pattern='[!C]*_test.py')       # everything but the CalcPRISM tests (17 s of solving that adds no events here)
    if case['kind'] == 'func':
        return run_func(ctx, case)
    return run_system(ctx, case)
