"""C02 - Solutions reproduce exact results: PY hard spheres and the dilute limit.

Monitor shape: refinement-family monitor on the real solve + calculate pipeline.  A one-component system is solved
on dr, dr/2, dr/4 (, dr/8) at fixed r_max and the observed quantities are compared with closed-form results:
 * PY hard spheres (Wertheim-Thiele): contact value, S(k) at every resolved wavenumber, S(0), c(r) inside the core
   and |c| outside;
 * dilute limit (packing fraction 1e-7): g = exp(-u/kT) (PY, HNC), 1-u/kT outside / 0 inside (MSA with flag) and
   B2 = -2 pi Int (e^{-u/kT}-1) r^2 dr by adaptive quadrature.
Discretisation claims are never judged with an absolute tolerance:  (i) first-order envelope e(dr) <= K dr,
(ii) the max-norm error over the fixed r / fixed k points shrinks under refinement (ratio < 0.65), (iii) the Richardson
limit 2Q(dr/2) - Q(dr) on the finest pair is within a second-order envelope of the exact value.
"""
import copy
import json
import math
import zlib

import numpy as np
from scipy.integrate import quad

import pyPRISM

from .. import core
from .. import refmodel as R
from .. import gen as G

PID = 'C02'
RULE = ('hard-sphere cases = (packing fraction uniform 0.02..0.47, diameter 0.8|1.0|1.2, kT 0.3..10, r_max = 25.6 d, levels dr = d/10, d/20, d/40, d/80; 40 % as a density sweep on one re-used System whose state moves on before the collected object is post-processed; Domain via dr/dk/setters, kT via constructor/assignment); '
        'dilute cases = every shipped potential (epsilon/kT in -1.5..1.5) x {PY, HNC, MSA(flag)} at packing fractions 1e-7, 1e-9, 1e-11 (deviation of g allowed: 500 rho relative) on dr = 0.05, 0.025, 0.0125 (narrow features such as the WCA shoulder must be resolved; the error ratio is judged on the finest pair); '
        'each case = one refinement family; only families whose every level converges (fatol 1e-11) are judged; non-trivial = all levels converged and compared; '
        'distinct = distinct case digests')
ASSUMPTIONS = ['Wertheim-Thiele closed forms (refmodel.py_hs_*); scipy.integrate.quad for the exact B2',
               'envelopes: first order K(eta) = 0.5 + 12 eta/(1-eta)^2 (relative, per dr/d), second order C(eta) = 1 + 80 (eta/(1-eta))^2 (per (dr/d)^2) - about 2-4x the worst constants observed on the unchanged tree',
               'the contact value is read at the dr-dependent point sigma+dr, where two O(dr) effects compete: conditions (i) and (iii) only']
MINIMA = {'quick': {'hs.family': 24, 'hs.S_k_points': 1500, 'dilute.family': 40, 'dilute.g_pointwise': 120, 'richardson': 100},
          'thorough': {'hs.family': 150, 'hs.S_k_points': 6000, 'dilute.family': 200, 'dilute.g_pointwise': 600, 'richardson': 500}}
SHARDS = {'quick': 8, 'thorough': 16}
TIME_BUDGET = {'quick': 45, 'thorough': 320}

SOLVERS = [('krylov', {'fatol': 1e-11, 'maxiter': 200}), ('krylov', {'line_search': 'wolfe', 'fatol': 1e-11, 'maxiter': 200}), ('anderson', {'fatol': 1e-11, 'maxiter': 3000})]
POTS = ['HS', 'HCLJ', 'EXP', 'LJ', 'LJcs', 'LJc', 'WCA']


def cases(ctx):
    rng = ctx.rng('c02')
    n = ctx.budget(48, 320)
    for it in range(n):
        yield {'kind': 'pyhs', 'eta': float(rng.uniform(0.02, 0.47)), 'd': float(rng.choice([1.0, 1.0, 0.8, 1.2])), 'kT': float(10 ** rng.uniform(np.log10(0.3), 1)),
               'levels': 4, 'hc': bool(rng.random() < 0.3), 'rmax': float(rng.choice([25.6, 25.6, 20.5, 28.7])), 'reuse': bool(rng.random() < 0.4), 'via': str(rng.choice(G.VIAS)), 'kT_via': str(rng.choice(['ctor', 'assign']))}
    n = ctx.budget(84, 630)
    for it in range(n):
        yield {'kind': 'dilute', 'pot': POTS[it % len(POTS)], 'clo': ['PY', 'HNC', 'MSA'][(it // len(POTS)) % 3], 'hc': bool(rng.random() < 0.4), 'rmax': float(rng.choice([25.6, 25.6, 20.5])), 'rho_exp': int(rng.choice([-7, -7, -9, -11])), 'kT': float(rng.choice([1.0, 2.5, 0.7, 4.0])),
               'eps': float(rng.uniform(0.2, 1.5)) * float(rng.choice([-1, 1])), 'alpha': float(rng.uniform(0.3, 1.0)), 'levels': 3,
               'via': str(rng.choice(G.VIAS)), 'kT_via': str(rng.choice(['ctor', 'assign']))}


def solve(p, guess=None):
    for m, o in SOLVERS:
        res = G.solve(p, m, dict(o), guess=None if guess is None else np.array(guess), max_evals=6000)
        if res is not None and res.success:
            return res
    return None


def K1(eta):
    return 0.5 + 12 * eta / (1 - eta) ** 2


def C2(eta):
    return 1 + 80 * (eta / (1 - eta)) ** 2


def judge_family(ctx, name, label, errs, drs, K, C, rich, scale_note='', ratio=True, floor=1e-7, last_pair_only=False, ratio_max=0.65):
    """errs[level] = max-norm relative error of one quantity group; rich = relative error of the Richardson limit on the finest pair"""
    for lv, (e, dr) in enumerate(zip(errs, drs)):
        ctx.observe('%s_e/(K dr)' % name, e / (K * dr))
        if not e <= K * dr + floor:
            ctx.violation('exact:%s:error-exceeds-first-order-envelope' % name, '%s: %s relative error %.3g at dr=%g exceeds K*dr = %.3g %s' % (label, name, e, dr, K * dr, scale_note))
            return False
    if ratio and errs[0] > 0.05 * K * drs[0]:
        if not errs[-1] < errs[0]:
            ctx.violation('exact:%s:error-does-not-shrink' % name, '%s: %s error on the finest grid %.3g is not below the coarsest %.3g' % (label, name, errs[-1], errs[0]))
            return False
        for lv in ([len(errs) - 2] if last_pair_only else range(len(errs) - 1)):
            if errs[lv + 1] > 100 * floor:
                r = errs[lv + 1] / errs[lv]
                ctx.observe('%s_ratio/max' % name, r / ratio_max)
                if not r < ratio_max:
                    ctx.violation('exact:%s:error-ratio-not-first-order' % name, '%s: %s error goes %.3g -> %.3g under dr -> dr/2 (ratio %.3g)' % (label, name, errs[lv], errs[lv + 1], r))
                    return False
    ctx.hook('richardson')
    env = C * drs[-2] ** 2 + 10 * floor
    ctx.observe('%s_richardson/envelope' % name, rich / env)
    if not rich <= env:
        ctx.violation('exact:%s:richardson-limit-off' % name, '%s: %s extrapolated to dr -> 0 from dr=%g,%g differs from the exact value by %.3g (relative; second-order envelope %.3g): a prefactor / convention error?' % (
            label, name, drs[-2], drs[-1], rich, env))
        return False
    return True


FRACTIONS = {2: [0.7, 0.3], 3: [0.5, 0.3, 0.2], 4: [0.4, 0.3, 0.2, 0.1]}


def mixture_row(p, res, sp, rho, d, dr, L, lv, k, dk, r):
    """the quantities of run_pyhs for the fluid written as several labelled species: every pair function must be THE one-component
    function, so each entry below is a stack over pairs (the exact value broadcasts)"""
    ts = sp['types']
    gm = pyPRISM.calculate.pair_correlation(copy.deepcopy(p))
    Sm = pyPRISM.calculate.structure_factor(copy.deepcopy(p))
    Bm = pyPRISM.calculate.second_virial(copy.deepcopy(p))
    ic = int(round(d / dr))
    nk = int(12.0 / d / dk)
    inner = (np.arange(1, 10) * 2 ** lv) - 1
    prs = [(a, b) for a in ts for b in ts]
    g = np.array([np.array(gm[a, b]) for a, b in prs])
    if g.min() < -1e-3:
        raise core.Skip('solver converged to an unphysical root (g < 0)')
    cs = []
    for a, b in prs:
        Ck = np.array(p.directCorr[a, b])
        cs.append(R.to_real(Ck, dr) if L <= 512 else np.array(p.sys.domain.to_real(Ck)))
    cs = np.array(cs)
    Sk = np.array([1 + rho * (np.array(Sm[t, t])[:nk] - 1) / sp['rho'][t] for t in ts])        # 1 + rho h(k) recovered from every diagonal partial
    return {'dr': dr / d, 'gc': g[:, ic], 'S0': np.array([1 - 2 * rho * float(Bm[a, b]) for a, b in prs]), 'Sk': Sk, 'k': k[:nk], 'cin': cs[:, inner], 'rin': r[inner],
            'cout': float(np.abs(cs[:, ic:]).max()), 'gcore': float(np.abs(g[:, :ic - 1]).max()), 'resid': float(np.abs(res.fun).max())}


def run_pyhs(ctx, case):
    eta, d, kT = case['eta'], case['d'], case['kT']
    rho = 6 * eta / (math.pi * d ** 3)
    rows = []
    nsp = 1 if case.get('reuse') else [1, 1, 1, 2, 3, 3, 4][zlib.crc32(json.dumps(case, sort_keys=True, default=str).encode()) // 3 % 7]
    for lv in range(int(case['levels'])):
        dr = d / 10.0 / 2 ** lv
        L = int(round(case.get('rmax', 25.6) * d / dr))          # 256..2048, or 205/287 x 2^n (prime factors 41 and 7)
        # density continuation towards the physical branch (the discrete equations have spurious roots at high density)
        guess = None
        res = None
        s_reused = None
        for e_step in [x for x in (0.15, 0.3, 0.4) if x < eta - 0.02] + [eta]:
            sp = dict(types=['A'], dr=dr, L=L, d={'A': d}, rho={'A': 6 * e_step / (math.pi * d ** 3)}, kT=kT, pot={'A|A': {'t': 'HS'}}, clo={'A|A': {'t': 'PY', 'hc': case['hc']}}, om={'A|A': {'t': 'SS'}},
                      via=case.get('via', 'dr'), kT_via=case.get('kT_via', 'ctor'), labels={'A': label_of(case)})
            if nsp > 1:
                # the same one-component fluid, written down as nsp labelled species of identical spheres with unequal mole fractions
                ts = list('ABCD')[:nsp]
                sp = dict(types=ts, dr=dr, L=L, d={t: d for t in ts}, rho={t: f * 6 * e_step / (math.pi * d ** 3) for t, f in zip(ts, FRACTIONS[nsp])}, kT=kT,
                          pot={G.pk(a, b): {'t': 'HS'} for (_, _), (a, b) in G.pairs(ts)}, clo={G.pk(a, b): {'t': 'PY', 'hc': case['hc']} for (_, _), (a, b) in G.pairs(ts)},
                          om={G.pk(a, b): {'t': 'SS' if a == b else 'NI'} for (_, _), (a, b) in G.pairs(ts)}, via=case.get('via', 'dr'), kT_via=case.get('kT_via', 'ctor'))
            if case.get('reuse'):
                # a density sweep on ONE System object, as the tutorials do
                if s_reused is None:
                    s_reused = G.build(sp)
                else:
                    s_reused.density[G.fresh(label_of(case))] = sp['rho']['A']
                p = s_reused.createPRISM()
            else:
                p = G.build(sp).createPRISM()
            res = solve(p, guess)
            if res is None:
                raise core.Skip('hard-sphere level did not converge')
            guess = np.array(res.x)
        if case.get('reuse'):
            # the sweep goes on before the collected object is post-processed
            s_reused.density[G.fresh(label_of(case))] = sp['rho']['A'] * 0.37
            s_reused.kT = kT * 2.0
            s_reused.diameter[G.fresh(label_of(case))] = d + dr
        r, k, dk = R.grids(L, dr)
        if nsp > 1:
            rows.append(mixture_row(p, res, sp, rho, d, dr, L, lv, k, dk, r))
            continue
        g = np.array(pyPRISM.calculate.pair_correlation(p)[G.fresh(label_of(case)), G.fresh(label_of(case))])
        if g.min() < -1e-3:
            raise core.Skip('solver converged to an unphysical root (g < 0)')
        S = np.array(pyPRISM.calculate.structure_factor(p)[G.fresh(label_of(case)), G.fresh(label_of(case))])
        B2 = float(pyPRISM.calculate.second_virial(p)[G.fresh(label_of(case)), G.fresh(label_of(case))])
        Ck = np.array(p.directCorr[G.fresh(label_of(case)), G.fresh(label_of(case))])
        c = R.to_real(Ck, dr) if L <= 512 else np.array(p.sys.domain.to_real(Ck))
        ic = int(round(d / dr))                  # index of the first grid point outside the core (r = d + dr)
        nk = int(12.0 / d / dk)
        step = 2 ** lv
        inner = (np.arange(1, 10) * step) - 1   # r = 0.1 d .. 0.9 d, present on every level
        rows.append({'dr': dr / d, 'gc': g[ic], 'S0': 1 - 2 * rho * B2, 'Sk': S[:nk], 'k': k[:nk], 'cin': c[inner], 'rin': r[inner], 'cout': float(np.abs(c[ic:]).max()),
                     'gcore': float(np.abs(g[:ic - 1]).max()), 'resid': float(np.abs(res.fun).max())})
    ctx.hook('hs.family')
    ctx.hook('hs.S_k_points', len(rows[0]['k']))
    label = 'PY hard spheres eta=%.4f d=%g kT=%.3g%s%s' % (eta, d, kT, ' (flag)' if case['hc'] else '', (' written as %d labelled species with fractions %s' % (nsp, FRACTIONS[nsp])) if nsp > 1 else '')
    ctx.count('labelled_species', nsp)
    drs = [q['dr'] for q in rows]
    K, C = K1(eta), C2(eta)
    ex = {'gc': R.py_hs_contact(eta), 'S0': R.py_hs_S0(eta), 'Sk': R.py_hs_S_k(rows[0]['k'], eta, d), 'cin': R.py_hs_c_r(rows[0]['rin'] / d, eta)}
    for q, ratio in (('gc', False), ('S0', True), ('Sk', True), ('cin', True)):
        sc = float(np.abs(ex[q]).max())
        errs = [float(np.abs(row[q] - ex[q]).max()) / sc for row in rows]
        rich = float(np.abs(2 * rows[-1][q] - rows[-2][q] - ex[q]).max()) / sc
        # c(r) is also judged at r = 0.1 d, where the half-cell shift of the transform alone is a dr/(2r) = 5 dr/d relative effect
        Kq, Cq = (K + 3.0, C + 6.0) if q == 'cin' else (K, C)
        if not judge_family(ctx, {'gc': 'contact_value', 'S0': 'S(0)', 'Sk': 'S(k)', 'cin': 'c(r<d)'}[q], label, errs, drs, Kq, Cq, rich, ratio=ratio):
            return
    for row in rows:
        if not row['cout'] <= 1e-8 + 100 * row['resid']:
            ctx.violation('exact:c-nonzero-outside-core', '%s: |c(r>d)| = %.3g at dr=%g (PY hard spheres: exactly zero outside the core)' % (label, row['cout'], row['dr']))
            return
    ctx.nontrivial(case)
    ctx.count('eta_decile', int(eta * 10))
    ctx.count('system_reused_in_sweep', bool(case.get('reuse')))
    ctx.count('domain_via', case.get('via', 'dr'))
    ctx.sample({'PY_hard_spheres': {'eta': eta, 'd': d, 'kT': kT, 'levels': drs, 'contact': [float(np.ravel(q['gc'])[0]) for q in rows], 'contact_exact': ex['gc'],
                                     'S0': [float(np.ravel(q['S0'])[0]) for q in rows], 'S0_exact': ex['S0'], 'labelled_species': nsp}}, limit=3)


def label_of(case):
    """the site label of the one-component system: a literal, or a name computed at run time (equal to, but not the same object as, the
    one the System was created with - gen.build and every access below make a new equal string)"""
    return ['A', 'monomer', 'bead_1'][zlib.crc32(json.dumps(case, sort_keys=True, default=str).encode()) % 3]


def dilute_spec(case, dr):
    pot = case['pot']
    eps = case['eps']
    ps = {'HS': {'t': 'HS'}, 'HCLJ': {'t': 'HCLJ', 'eps': eps}, 'EXP': {'t': 'EXP', 'eps': eps, 'alpha': case['alpha']}, 'LJ': {'t': 'LJ', 'eps': abs(eps)},
          'LJcs': {'t': 'LJ', 'eps': abs(eps), 'rcut': 2.5, 'shift': True}, 'LJc': {'t': 'LJ', 'eps': abs(eps), 'rcut': 3.0, 'shift': False}, 'WCA': {'t': 'WCA', 'eps': abs(eps)}}[pot]
    cs = {'t': case['clo'], 'hc': case['clo'] == 'MSA' or bool(case.get('hc'))}
    hsel = zlib.crc32(json.dumps(case, sort_keys=True, default=str).encode()) // 7 % 5
    if ps['t'] in ('HS', 'HCLJ', 'EXP') and hsel >= 3:
        ps['hv'] = [2.5, 4.0][hsel - 3]          # a finite shoulder of a few kT instead of a hard core (penetrable spheres): exp(-hv/kT) is not zero
    L = int(round(case.get('rmax', 25.6) / dr))
    return dict(types=['A'], dr=dr, L=L, d={'A': 1.0}, rho={'A': 6 * 10.0 ** case.get('rho_exp', -7) / math.pi}, kT=case['kT'], pot={'A|A': ps}, clo={'A|A': cs}, om={'A|A': {'t': 'SS'}},
                via=case.get('via', 'dr'), kT_via=case.get('kT_via', 'ctor'), labels={'A': label_of(case)})


def h_exact(ps, clo, kT, x, hc=False):
    """dilute-limit h(r) at scalar distances"""
    x = np.atleast_1d(np.asarray(x, dtype=float))
    with np.errstate(all='ignore'):
        u = R.u_ref(dict(ps, hv=ps.get('hv', np.inf)), x, 1.0) / kT
        if clo == 'MSA':
            return np.where(x > 1.0, -np.where(np.isfinite(u), u, 0.0), -1.0)
        if hc:
            return np.where(x > 1.0, np.exp(-u) - 1.0, -1.0)
        return np.exp(-u) - 1.0


def run_dilute(ctx, case):
    rows = []
    for lv in range(int(case['levels'])):
        dr = 0.05 / 2 ** lv
        sp = dilute_spec(case, dr)
        with np.errstate(all='ignore'):
            p = G.build(sp).createPRISM()
        # vanishing density: h -> c -> Mayer function, so gamma = h - c = O(rho) and x = 0 is a root up to O(rho) - no solver needed
        with np.errstate(all='ignore'):
            y0 = np.asarray(p.cost(np.zeros(sp['L'])), dtype=float)
        ctx.hook('dilute.cost_at_zero')
        r_ = R.grids(sp['L'], dr)[0]
        lim = 50 * sp['rho']['A'] * r_.max() + 1e-12
        ctx.observe('dilute_cost0/(50 rho r_max)', float(np.abs(y0).max()) / lim)
        if not np.all(np.abs(y0) <= lim):
            ctx.violation('exact:dilute-cost-at-zero-not-O(rho)', 'dilute %s/%s rho=%.3g: |r (gamma_out - 0)| = %.3g at the ideal-gas point, expected O(rho) <= %.3g (loss of precision at low density?)' % (
                case['pot'], case['clo'], sp['rho']['A'], float(np.abs(y0).max()), lim))
            return
        res = solve(p)
        if res is None:
            raise core.Skip('dilute level did not converge')
        r = R.grids(sp['L'], dr)[0]
        g = np.array(pyPRISM.calculate.pair_correlation(p)[G.fresh(label_of(case)), G.fresh(label_of(case))])
        B2 = float(pyPRISM.calculate.second_virial(p)[G.fresh(label_of(case)), G.fresh(label_of(case))])
        B2n = float(pyPRISM.calculate.second_virial(p, extrapolate=False)[G.fresh(label_of(case)), G.fresh(label_of(case))])
        rows.append({'dr': dr, 'g': g, 'r': r, 'B2': B2, 'B2n': B2n})
        ps, cs = sp['pot']['A|A'], sp['clo']['A|A']
    ctx.hook('dilute.family')
    label = 'dilute %s%s / %s kT=%g' % (ps['t'], {k: v for k, v in ps.items() if k != 't'}, case['clo'], case['kT'])
    # pointwise g: O(rho) accurate, away from branch points of the potential (judged by C10)
    for row in rows:
        ctx.hook('dilute.g_pointwise')
        m = R.branch_mask(ps, row['r'], 1.0)
        gex = h_exact(ps, case['clo'], case['kT'], row['r'], cs['hc']) + 1.0
        err = float(np.abs(row['g'] - gex)[m].max())
        # the first density correction is O(rho * Int f f) relative: up to ~3e-5 for the strongest attractions generated
        err = float((np.abs(row['g'] - gex) / (1 + np.abs(gex)))[m].max())
        gtol = 500 * sp['rho']['A'] + 1e-9              # "vanishing density": the deviation must vanish with rho
        ctx.observe('dilute_g/(500 rho)', err / gtol)
        if not err <= gtol:
            i = int(np.argmax(np.where(m, np.abs(row['g'] - gex), 0)))
            ctx.violation('exact:dilute-g-differs-from-boltzmann-factor', '%s: g(r=%.4g) = %.8g, dilute limit %.8g (dr=%g)' % (label, row['r'][i], row['g'][i], gex[i], row['dr']))
            return
    # B2: the reported value is -1/2 of the quadratic extrapolation of h(k) through the three lowest wavenumbers (dk = pi/r_max is the
    # same on every level), so the reference is that extrapolation of the EXACT transform; its distance to the volume integral is a
    # k-discretisation effect that does not depend on dr.  Errors are scaled by 2 pi Int |h| r^2 dr because B2 itself can vanish.
    rmax = float(case.get('rmax', 25.6))
    pts = sorted(set([1.0] + [x for x in R.special_points(ps, 1.0) if x < rmax]))
    edges = [0.0] + pts + [rmax]
    hfun = lambda x: float(h_exact(ps, case['clo'], case['kT'], x, cs['hc'])[0])
    f = lambda x: hfun(x) * x * x
    B2ex = -2 * math.pi * sum(quad(f, a, b, limit=200)[0] for a, b in zip(edges[:-1], edges[1:]))
    scale = 2 * math.pi * sum(quad(lambda x: abs(f(x)), a, b, limit=200)[0] for a, b in zip(edges[:-1], edges[1:]))
    k3 = R.grids(int(round(rmax / 0.05)), 0.05)[1][:3]
    hk = [4 * math.pi / kk * sum(quad(lambda x: hfun(x) * x, a, b, weight='sin', wvar=kk, limit=200)[0] for a, b in zip(edges[:-1], edges[1:])) for kk in k3]
    B2ref = -0.5 * float(R.quad0(k3, np.array(hk)))
    ctx.observe('B2_k_extrapolation_vs_volume_integral', abs(B2ref - B2ex) / scale)
    errs = [abs(row['B2'] - B2ref) / scale for row in rows]
    rich = abs(2 * rows[-1]['B2'] - rows[-2]['B2'] - B2ref) / scale
    ok = judge_family(ctx, 'B2', label, errs, [row['dr'] for row in rows], K=3.0, C=6.0, rich=rich, last_pair_only=True, ratio_max=0.75, scale_note='(of 2 pi Int |h| r^2 dr = %.4g; exact B2 %.6g, its 3-point k-extrapolation %.6g)' % (scale, B2ex, B2ref))
    if ok:
        # the other reported value (extrapolate=False) is -1/2 of h at the LOWEST wavenumber: the reference is the exact transform there
        B2nref = -0.5 * float(hk[0])
        errs_n = [abs(row['B2n'] - B2nref) / scale for row in rows]
        rich_n = abs(2 * rows[-1]['B2n'] - rows[-2]['B2n'] - B2nref) / scale
        ok = judge_family(ctx, 'B2(extrapolate=False)', label, errs_n, [row['dr'] for row in rows], K=3.0, C=6.0, rich=rich_n, last_pair_only=True, ratio_max=0.75,
                          scale_note='(of 2 pi Int |h| r^2 dr = %.4g; -h(k_1)/2 of the exact transform %.6g)' % (scale, B2nref))
    if ok and abs(B2ref - B2ex) <= 2e-3 * scale:
        # when the three lowest k resolve h(k), the reported value must approach the volume integral itself
        if not abs(2 * rows[-1]['B2'] - rows[-2]['B2'] - B2ex) <= (6.0 * rows[-2]['dr'] ** 2 + 2e-3) * scale:
            ctx.violation('exact:B2:volume-integral', '%s: extrapolated B2 %.6g vs -2 pi Int (e^{-u/kT}-1) r^2 dr = %.6g' % (label, 2 * rows[-1]['B2'] - rows[-2]['B2'], B2ex))
            ok = False
    if ok:
        ctx.nontrivial(case)
    ctx.count('dilute', '%s/%s' % (case['pot'], case['clo']))
    ctx.sample({'dilute': {'potential': ps, 'closure': case['clo'], 'kT': case['kT'], 'B2': [row['B2'] for row in rows], 'B2_exact': B2ex, 'scale': scale}}, limit=3)


def run_case(ctx, case):
    if case['kind'] == 'pyhs':
        return run_pyhs(ctx, case)
    return run_dilute(ctx, case)
