"""C05 - Every calculate.* quantity equals its definition and the cross-identities hold.

Monitor shape: post-condition contracts on the seven real calculate functions.  Each function is wrapped
(and rebound in every pyPRISM namespace that imported it); before the call the monitor snapshots the
object's arrays, after the call it evaluates the definition with the independent reference model
(dense reference transforms, per-wavenumber matrix algebra, Lagrange quadratic) from the *user-level*
specification and compares.  The workload hand-populates PRISM objects of rank 1-4 with random smooth
symmetric correlation functions in either space, and also uses converged solutions.
"""
import itertools
import sys

import copy

import numpy as np

import pyPRISM
from pyPRISM.core.MatrixArray import MatrixArray
from pyPRISM.core.PairTable import PairTable
from pyPRISM.core.Space import Space

from .. import refmodel as R
from .. import gen as G
from .. import tutorials as T

PID = 'C05'
RULE = ('cases = PRISM objects of rank 1-4 (domain length 32-256, random densities, diameters, kT, chain/cross omegas) whose totalCorr and directCorr '
        'are hand-populated with random smooth symmetric functions, each (and omega) independently left in real or Fourier space, plus converged solutions of '
        'rank 2-3 systems; on each object all seven calculate functions are called with both values of every flag (11 calls) under the contracts, '
        'chi additionally with linear probes (a single non-zero pair function); non-trivial = object of rank >= 2 on which all 11 calls were '
        'compared, or rank 1 with the 5 applicable calls and the 3 refusals; distinct = distinct case digests')
ASSUMPTIONS = ['definitions as in the property statement; structure factor uses the stored (site-density-scaled) omega',
               'spinodal_condition ignores its extrapolate flag: for extrapolate=False either the extrapolated or the lowest-k value is accepted',
               'chi for rank>2: rho may be the total density of all species or of the pair (the statement fixes it only for two components); for unequal volumes only the weight ratio 1/R : R : -2 is asserted',
               'pmf compared where g_ref > 1e-3; PY solvation potential compared when 1 + C S C > 0.05 everywhere']
MINIMA = {'quick': {'calc.pair_correlation': 100, 'calc.structure_factor': 200, 'calc.pmf': 100, 'calc.second_virial': 200, 'calc.chi': 150, 'calc.spinodal_condition': 80,
                    'calc.solvation_potential': 150, 'solved.S_identity': 8, 'rank1.refusal': 30, 'chi.linear_probe': 50},
          'thorough': {'calc.pair_correlation': 3000, 'calc.structure_factor': 6000, 'calc.pmf': 3000, 'calc.second_virial': 6000, 'calc.chi': 4000, 'calc.spinodal_condition': 2000,
                       'calc.solvation_potential': 4000, 'solved.S_identity': 200, 'rank1.refusal': 1000, 'chi.linear_probe': 1500}}
SHARDS = {'quick': 8, 'thorough': 16}
TIME_BUDGET = {'quick': 45, 'thorough': 280}

RTOL = 1e-10
_S = {'ctx': None, 'spec': None, 'on': True}
FUNCS = ['pair_correlation', 'structure_factor', 'pmf', 'second_virial', 'chi', 'spinodal_condition', 'solvation_potential']


# ----------------------------------------------------------------------------- state capture & reference

def capture(p):
    out = {}
    for name in ('totalCorr', 'directCorr', 'omega'):
        m = getattr(p, name)
        out[name] = (np.array(m.data, copy=True), m.space)
    return out


def spaces(st, dr):
    """Fourier- and real-space versions of the captured arrays via the reference transforms"""
    res = {}
    for name, (data, sp) in st.items():
        if sp == Space.Fourier:
            res[name] = {'k': data, 'r': None}
        else:
            res[name] = {'k': None, 'r': data}
    def get(name, which):
        e = res[name]
        if e[which] is None:
            e[which] = R.to_fourier(e['r'], dr) if which == 'k' else R.to_real(e['k'], dr)
        return e[which]
    return get


def as_array(x, types, sp=None):
    """MatrixArray -> ndarray; PairTable -> dict (a,b)->value keyed by the SPEC's type names (the real labels may differ)"""
    if isinstance(x, MatrixArray):
        if sp is not None and list(x.types) != [G.lab(sp, t) for t in types]:
            _S['ctx'].violation('calc:result-types', 'returned MatrixArray carries types %r, the system has %r' % (list(x.types), [G.lab(sp, t) for t in types]))
        return np.asarray(x.data)
    if isinstance(x, PairTable):
        L_ = (lambda t: t) if sp is None else (lambda t: G.lab(sp, t))
        return {(a, b): x[L_(a), L_(b)] for a in types for b in types}
    return x


def cmp(ctx, name, got, ref, mask=None, rtol=RTOL, what=''):
    got = np.asarray(got, dtype=float)
    ref = np.asarray(ref, dtype=float)
    if got.shape != ref.shape:
        ctx.violation('calc:%s-shape' % name, '%s returned shape %s, definition has %s' % (name, got.shape, ref.shape))
        return False
    with np.errstate(all='ignore'):
        scale = np.nanmax(np.abs(np.where(np.isfinite(ref), ref, 0))) if ref.size else 0.0
        err = np.abs(got - ref)
        ok = (err <= rtol * max(scale, 1e-300)) | (np.isnan(got) & np.isnan(ref)) | (got == ref)
        if mask is not None:
            ok = ok | ~mask
    e = float(np.nanmax(np.where(ok, 0, err)) / max(scale, 1e-300)) if ref.size else 0.0
    with np.errstate(all='ignore'):
        fin = np.isfinite(err) & (mask if mask is not None else True)
        ctx.observe('calc_vs_definition/1e-10', (float(err[fin].max()) / max(scale, 1e-300) / rtol) if np.any(fin) else 0.0)
    if not ok.all():
        ctx.violation('calc:%s-differs-from-definition%s' % (name, what), '%s%s differs from its definition: rel err %.3g (rank %d, spaces H=%s C=%s W=%s)' % (
            name, what, e, len(_S['spec']['types']), *[_S['state'][n][1].name for n in ('totalCorr', 'directCorr', 'omega')]))
        return False
    return True


def check_symmetric(ctx, name, got):
    if isinstance(got, np.ndarray) and got.ndim == 3:
        if not np.array_equal(got, np.transpose(got, (0, 2, 1)), equal_nan=True):
            ctx.violation('calc:%s-asymmetric' % name, '%s returned pair functions that are not symmetric in the two type labels' % name)


def reference(name, kwargs, sp, st):
    """definition of calculate.<name>(**kwargs) from the user-level spec and the captured arrays"""
    types = sp['types']
    n = len(types)
    dr, L, kT = sp['dr'], sp['L'], sp['kT']
    r, k, dk = R.grids(L, dr)
    rho = np.array([sp['rho'][t] for t in types])
    d = np.array([sp['d'][t] for t in types])
    pair, site = R.rho_mats(rho)
    get = spaces(st, dr)
    if name == 'pair_correlation':
        return get('totalCorr', 'r') + 1.0
    if name == 'pmf':
        g = get('totalCorr', 'r') + 1.0
        with np.errstate(all='ignore'):
            return -kT * np.log(g), g > 1e-3
    if name == 'structure_factor':
        S = get('omega', 'k') + pair * get('totalCorr', 'k')
        return S / site if kwargs.get('normalize', True) else S
    if name == 'second_virial':
        Hk = get('totalCorr', 'k')
        out = {}
        for i, a in enumerate(types):
            for j, b in enumerate(types):
                y = -0.5 * Hk[:, i, j]
                out[a, b] = R.quad0(k, y) if kwargs.get('extrapolate', True) else y[0]
        return out
    if name == 'chi':
        Ck = get('directCorr', 'k')
        out = {}
        for i, j in itertools.combinations(range(n), 2):
            Rv = (d[i] / d[j]) ** 3
            phiA = rho[i] / (rho[i] + rho[j])
            pref = 0.5 / (Rv ** -0.5 * phiA + Rv ** 0.5 * (1 - phiA))
            curve = pref * (Ck[:, i, i] / Rv + Rv * Ck[:, j, j] - 2 * Ck[:, i, j])
            out[types[i], types[j]] = curve          # times rho (total or pair), applied by the comparison
        return out
    if name == 'spinodal_condition':
        Ck, W = get('directCorr', 'k'), get('omega', 'k')
        out = {}
        for i, j in itertools.combinations(range(n), 2):
            idx = np.ix_(range(L), [i, j], [i, j])
            det = np.array([np.linalg.det(np.eye(2) - W[l][np.ix_([i, j], [i, j])] @ Ck[l][np.ix_([i, j], [i, j])]) for l in range(3)])
            out[types[i], types[j]] = (R.quad0(k, det), det[0])
        return out
    if name == 'solvation_potential':
        Ck = get('directCorr', 'k')
        S = (get('omega', 'k') + pair * get('totalCorr', 'k')) / site
        CSC = np.einsum('lij,ljk,lkm->lim', Ck, S, Ck)
        if kwargs.get('closure', 'HNC') == 'HNC':
            return R.to_real(-kT * CSC, dr), True
        with np.errstate(all='ignore'):
            return R.to_real(-kT * np.log(1 + CSC), dr), bool(np.all(1 + CSC > 0.05))
    raise KeyError(name)


def contract(name, p, kwargs, st, res):
    ctx, sp = _S['ctx'], _S['spec']
    types = sp['types']
    n = len(types)
    rho = np.array([sp['rho'][t] for t in types])
    ctx.hook('calc.' + name)
    got = as_array(res, types, sp)
    flag = ''.join('[%s=%s]' % kv for kv in sorted(kwargs.items()))
    _S['state'] = st
    if name in ('pair_correlation', 'structure_factor'):
        ref = reference(name, kwargs, sp, st)
        cmp(ctx, name, got, ref, what=flag)
        check_symmetric(ctx, name, got)
    elif name == 'pmf':
        ref, mask = reference(name, kwargs, sp, st)
        cmp(ctx, name, got, ref, mask=mask)
        check_symmetric(ctx, name, np.where(mask, got, 0) if isinstance(got, np.ndarray) and got.shape == mask.shape else got)
    elif name == 'solvation_potential':
        ref, valid = reference(name, kwargs, sp, st)
        if valid:
            cmp(ctx, name, got, ref, what=flag)
            check_symmetric(ctx, name, got)
        else:
            ctx.hook('calc.solvation_potential:PY-log-domain-skipped')
    elif name == 'second_virial':
        ref = reference(name, kwargs, sp, st)
        scale = max(abs(v) for v in ref.values())
        for key, v in ref.items():
            g = got.get(key)
            if g is None or not abs(g - v) <= RTOL * 100 * max(scale, 1e-300):
                ctx.violation('calc:second_virial-differs-from-definition' + flag, 'second_virial%s[%s,%s] = %r, definition -h(k->0)/2 = %r' % (flag, key[0], key[1], g, v))
                break
        for a, b in itertools.permutations(types, 2):
            if got.get((a, b)) != got.get((b, a)):
                ctx.violation('calc:second_virial-asymmetric', 'second_virial[%s,%s] != [%s,%s]' % (a, b, b, a))
                break
    elif name == 'chi':
        ref = reference(name, kwargs, sp, st)
        k = R.grids(sp['L'], sp['dr'])[1]
        for (a, b), curve in ref.items():
            i, j = types.index(a), types.index(b)
            g = got.get((a, b))
            g2 = got.get((b, a))
            if g is None:
                ctx.violation('calc:chi-missing-pair', 'chi%s has no value for pair %s-%s' % (flag, a, b))
                break
            if not np.array_equal(np.asarray(g), np.asarray(g2), equal_nan=True):
                ctx.violation('calc:chi-asymmetric', 'chi[%s,%s] != chi[%s,%s]' % (a, b, b, a))
            cands = [rho.sum()] if n == 2 else [rho.sum(), rho[i] + rho[j]]
            equal_vol = abs(sp['d'][a] - sp['d'][b]) < 1e-12
            ok = False
            for rr in cands:
                full = rr * curve
                want = R.quad0(k, full) if kwargs.get('extrapolate', True) else full
                if np.shape(g) == np.shape(want) and np.allclose(g, want, rtol=RTOL * 100, atol=RTOL * 100 * np.abs(full).max()):
                    ok = True
            if equal_vol and not ok:
                ctx.violation('calc:chi-differs-from-definition' + flag, 'chi%s[%s,%s] differs from (rho/2)(C_aa+C_bb-2C_ab) for equal site volumes (rank %d)' % (flag, a, b, n))
                break
            if not equal_vol and not ok:
                # general case: only linearity and the weight ratio are fixed by the statement -> judged by the linear probes
                ctx.hook('chi.unequal_volume_value_not_judged')
    elif name == 'spinodal_condition':
        ref = reference(name, kwargs, sp, st)
        for (a, b), (v0, vlow) in ref.items():
            g = got.get((a, b))
            ok = g is not None and (abs(g - v0) <= RTOL * 1e3 * (1 + abs(v0)) or (not kwargs.get('extrapolate', True) and abs(g - vlow) <= RTOL * 1e3 * (1 + abs(vlow))))
            if not ok:
                later = types.index(a) > 0 or types.index(b) > 1
                ctx.violation('calc:spinodal_condition-differs-from-definition' + (':later-pair' if later else ':first-pair'),
                              'spinodal_condition[%s,%s] = %r, k->0 limit of det(I - Omega C) of that 2x2 block = %r (rank %d)' % (a, b, g, v0, n))
                break
            if got.get((b, a)) != g:
                ctx.violation('calc:spinodal_condition-asymmetric', 'spinodal_condition[%s,%s] != [%s,%s]' % (a, b, b, a))


def attach(ctx):
    _S['ctx'] = ctx
    calc = pyPRISM.calculate
    if getattr(calc, '_pvmon_wrapped', False):
        return
    for name in FUNCS:
        orig = getattr(calc, name)
        if not callable(orig):       # module object: pyPRISM.calculate.<name> is the submodule when not re-exported
            orig = getattr(orig, name)

        def make(orig, name):
            def wrapped(PRISM, *a, **kw):
                if _S['ctx'] is None or not _S['on'] or _S['spec'] is None or _S.get('depth', 0) > 0:
                    return orig(PRISM, *a, **kw)
                st = capture(PRISM)
                _S['depth'] = _S.get('depth', 0) + 1
                try:
                    res = orig(PRISM, *a, **kw)
                finally:
                    _S['depth'] -= 1
                import inspect
                ba = inspect.signature(orig).bind(PRISM, *a, **kw)
                kwargs = {k: v for k, v in ba.arguments.items() if k != 'PRISM'}
                contract(name, PRISM, kwargs, st, res)
                return res
            wrapped.__name__ = name
            wrapped._pvmon_orig = orig
            return wrapped
        w = make(orig, name)
        # rebind in every pyPRISM namespace that holds the original
        for modname, mod in list(sys.modules.items()):
            if mod is None or not modname.startswith('pyPRISM'):
                continue
            for attr, val in list(vars(mod).items()):
                if val is orig:
                    setattr(mod, attr, w)
    calc._pvmon_wrapped = True


def setup(ctx):
    attach(ctx)


# ----------------------------------------------------------------------------- workload

CALLS = [('pair_correlation', {}), ('structure_factor', {}), ('structure_factor', {'normalize': False}), ('pmf', {}), ('second_virial', {}),
         ('second_virial', {'extrapolate': False}), ('chi', {}), ('chi', {'extrapolate': False}), ('spinodal_condition', {}),
         ('solvation_potential', {}), ('solvation_potential', {'closure': 'PY'}),
         # a flag is "set" whatever truthy object carries it: a numpy comparison result, an element of a boolean array, 0/1
         ('structure_factor', {'normalize': np.bool_(True)}), ('structure_factor', {'normalize': 1}), ('structure_factor', {'normalize': np.bool_(False)}), ('structure_factor', {'normalize': 0}),
         ('second_virial', {'extrapolate': np.bool_(False)}), ('second_virial', {'extrapolate': 1}), ('chi', {'extrapolate': np.bool_(False)}), ('chi', {'extrapolate': 1}),
         ('spinodal_condition', {'extrapolate': np.bool_(False)}), ('spinodal_condition', {'extrapolate': 1}), ('spinodal_condition', {'extrapolate': False})]
MULTI = ('chi', 'spinodal_condition', 'solvation_potential')


def cases(ctx):
    for i, name in enumerate(T.NAMES):
        if ctx.mine(i):
            yield {'kind': 'tutorial', 'name': name}
    rng = ctx.rng('c05')
    n = ctx.budget(700, 12000)
    for it in range(n):
        if it % 14 == 13:
            yield {'kind': 'solved', 'rank': int(rng.choice([2, 2, 3])), 'seed': int(rng.integers(0, 2 ** 31))}
        else:
            yield {'kind': 'hand', 'rank': int(rng.choice([1, 2, 2, 3, 3, 4])), 'L': int(rng.choice([32, 48, 64, 100, 128, 256, 3, 4, 5])), 'dr': float(rng.choice([0.1, 0.05, 0.2])),
                   'spaceH': str(rng.choice(['Fourier', 'Real'])), 'spaceC': str(rng.choice(['Fourier', 'Fourier', 'Real'])), 'spaceW': str(rng.choice(['Fourier', 'Fourier', 'Fourier', 'Real'])), 'equal_d': bool(rng.random() < 0.5),
                   'seed': int(rng.integers(0, 2 ** 31))}


def hand_spec(rng, case):
    rank = int(case['rank'])
    types = list('ABCD')[:rank]
    dr, L = float(case['dr']), int(case['L'])
    dd = float(rng.choice([0.8, 1.0, 1.2]))
    d = {t: (dd if case['equal_d'] else float(rng.choice([0.6, 0.8, 1.0, 1.2, 1.4]))) for t in types}
    rho = {t: float(rng.uniform(0.02, 0.3)) for t in types}
    if rank >= 2 and case['seed'] % 12 == 5:
        rho[types[-1]] = 0.0            # a tracer species at density exactly zero (pure-component end of a composition sweep)
    sp = dict(types=types, dr=dr, L=L, d=d, rho=rho, kT=float(rng.uniform(0.5, 3.0)), pot={}, clo={}, om={})
    k = R.grids(L, dr)[1]
    for (i, j), (a, b) in G.pairs(types):
        sp['pot'][G.pk(a, b)] = {'t': 'HS'}
        sp['clo'][G.pk(a, b)] = {'t': 'PY', 'hc': True}
        if a == b:
            sp['om'][G.pk(a, b)] = {'t': str(rng.choice(['G', 'SS', 'FJC'])), 'N': int(rng.integers(2, 30)), 's': d[a]}
        else:
            sp['om'][G.pk(a, b)] = {'t': 'ARR', 'w': (rng.uniform(0, 1) * np.exp(-k * rng.uniform(0.2, 1.0))).tolist()} if rng.random() < 0.5 else {'t': 'NI'}
    return sp


def randsym(rng, L, types, k, space, amp):
    n = len(types)
    m = MatrixArray(length=L, rank=n, space=space, types=types)
    for i, a in enumerate(types):
        for j, b in enumerate(types):
            if i <= j:
                m[a, b] = amp * rng.normal() * np.exp(-k * rng.uniform(0.1, 1.0)) * np.cos(k * rng.uniform(0, 2))
    return m


def run_calls(ctx, p, sp, rng):
    n = len(sp['types'])
    done = 0
    order = list(range(len(CALLS)))
    for ci in order:
        name, kw = CALLS[ci]
        if n == 1 and name in MULTI:
            ctx.hook('rank1.refusal')
            try:
                getattr(pyPRISM.calculate, name)(p, **kw)
                ctx.violation('calc:%s-accepts-one-component' % name, '%s did not refuse a one-component object' % name)
            except AssertionError:
                pass
            continue
        # each call sees the object as populated (history effects are C06's subject): restore the arrays first
        restore(p)
        with np.errstate(all='ignore'):
            getattr(pyPRISM.calculate, name)(p, **kw)
        done += 1
        if name == 'pmf':
            # -kT ln g with nan where g < 0 is the function's result whatever numpy error state the CALLER runs under
            # (np.seterr(invalid='raise') is a common debugging setting): same numbers, no FloatingPointError
            _S['on'] = False
            try:
                restore(p)
                with np.errstate(all='ignore'):
                    base = np.array(pyPRISM.calculate.pmf(p).data, copy=True)
                restore(p)
                ctx.hook('pmf.under_invalid_raise')
                if np.isnan(base).any():
                    ctx.hook('pmf.under_invalid_raise.with_negative_g')
                try:
                    with np.errstate(divide='ignore', over='ignore', under='ignore', invalid='raise'):
                        strict = np.array(pyPRISM.calculate.pmf(p).data, copy=True)
                except FloatingPointError as e:
                    ctx.violation('calc:pmf-depends-on-callers-numpy-error-state', 'pmf raised FloatingPointError (%s) under np.errstate(invalid=\'raise\') while it returns nan for g < 0 under the default state' % e)
                else:
                    if not np.array_equal(base, strict, equal_nan=True):
                        ctx.violation('calc:pmf-depends-on-callers-numpy-error-state', 'pmf returns different numbers under np.errstate(invalid=\'raise\')')
            finally:
                _S['on'] = True
    return done


def restore(p):
    for name, (data, space) in _S['pristine'].items():
        m = getattr(p, name)
        m.data = np.array(data, copy=True)
        m.space = space


def judge_solved(ctx, p, sp, res, rng):
    _S['spec'] = sp
    _S['pristine'] = capture(p)
    # self-consistency identity: unnormalised S = (I - Omega C)^-1 Omega
    ctx.hook('solved.S_identity')
    restore(p)
    _S['on'] = False
    try:
        S = np.asarray(pyPRISM.calculate.structure_factor(p, normalize=False).data)
    finally:
        _S['on'] = True
    st = _S['pristine']
    get = spaces(st, sp['dr'])
    W, Ck = get('omega', 'k'), get('directCorr', 'k')
    n = len(sp['types'])
    ref = np.array([np.linalg.solve(np.eye(n) - W[l] @ Ck[l], W[l]) for l in range(sp['L'])])
    resid = float(np.abs(res.fun).max())
    tol = 1e4 * resid + 1e-9
    e = float(np.abs(S - ref).max() / max(np.abs(ref).max(), 1e-300))
    ctx.observe('S_identity/(1e4*residual)', e / tol)
    if not e <= tol:
        ctx.violation('calc:structure_factor-violates-self-consistency-identity', 'on a converged object S_unnormalised != (I - Omega C)^-1 Omega: rel err %.3g, solver residual %.3g' % (e, resid))
    return run_calls(ctx, p, sp, rng)


def run_tutorial(ctx, case):
    """the maintainers' case studies: all calculate.* contracts on every solved object of the tutorial sweeps"""
    rng = np.random.default_rng(0)

    def on_step(sp, s, p, res, label):
        ctx.hook('tutorial.step_judged')
        judge_solved(ctx, p, sp, res, rng)
        ctx.count('object', 'tutorial/%s' % case['name'])
    _S['spec'] = None
    nok, n = T.run(case['name'], on_step)
    _S['spec'] = None
    ctx.count('tutorial_steps', '%s: %d of %d solved' % (case['name'], nok, n))
    if nok:
        ctx.nontrivial(['tutorial', case['name']])


def run_case(ctx, case):
    if case['kind'] == 'tutorial':
        return run_tutorial(ctx, case)
    rng = np.random.default_rng(case['seed'])
    if case['kind'] == 'solved':
        sp = G.easy_spec(rng, rank=int(case['rank']), L=128, dr=0.1, eta_max=0.2)
        _S['spec'] = None
        p = G.build(sp).createPRISM()
        res = G.solve(p, 'krylov', {'line_search': 'wolfe', 'fatol': 1e-10, 'maxiter': 150})
        if res is None or not res.success:
            raise __import__('pvmon').core.Skip('solve did not converge')
        done = judge_solved(ctx, p, sp, res, rng)
        # a deep copy of the solved object (kept for later, handed to another routine) is a solved object like any other
        ctx.hook('solved.deepcopy_judged')
        judge_solved(ctx, copy.deepcopy(p), sp, res, rng)
        ctx.nontrivial(case)
        ctx.count('object', 'solved/rank%d' % len(sp['types']))
        return
    sp = hand_spec(rng, case)
    sp['labels'] = G.choose_labels(rng, sp['types'])
    _S['spec'] = None
    with np.errstate(all='ignore'):
        p = G.build(sp).createPRISM()
    L, types = sp['L'], sp['types']
    k = R.grids(L, sp['dr'])[1]
    rk = R.grids(L, sp['dr'])[0]
    spH = Space.Fourier if case['spaceH'] == 'Fourier' else Space.Real
    spC = Space.Fourier if case['spaceC'] == 'Fourier' else Space.Real
    rtypes = [G.lab(sp, t) for t in types]
    p.totalCorr = randsym(rng, L, rtypes, k if spH == Space.Fourier else rk, spH, 0.5)
    p.directCorr = randsym(rng, L, rtypes, k if spC == Space.Fourier else rk, spC, 0.3)
    if case['seed'] % 4 == 0:
        # some pairs carry no correlation at all (exact zeros): an object that was never solved, or populated for some pairs only
        for arr in (p.totalCorr, p.directCorr):
            for (i, j), (a, b) in G.pairs(rtypes):
                if rng.random() < (1.0 if case['seed'] % 8 == 0 else 0.4):
                    arr[a, b] = np.zeros(L)
        ctx.hook('exact_zero_pair_functions')
    if case.get('spaceW') == 'Real':
        p.sys.domain.MatrixArray_to_real(p.omega)           # the user looked at omega(r)
    _S['spec'] = sp
    _S['pristine'] = capture(p)
    done = run_calls(ctx, p, sp, rng)
    # chi: linear probes - a single non-zero pair function isolates each weight
    n = len(types)
    if n >= 2:
        ctx.hook('chi.linear_probe')
        a, b = rtypes[0], rtypes[1]
        Rv = (sp['d'][types[0]] / sp['d'][types[1]]) ** 3
        vals = {}
        _S['on'] = False
        try:
            for which in ('aa', 'bb', 'ab', 'zero', 'aa2'):
                C = MatrixArray(length=L, rank=n, space=Space.Fourier, types=rtypes)
                shape = np.exp(-k * 0.3)
                if which == 'aa':
                    C[a, a] = shape
                elif which == 'bb':
                    C[b, b] = shape
                elif which == 'ab':
                    C[a, b] = shape
                elif which == 'aa2':
                    C[a, a] = 2.5 * shape
                p.directCorr = C
                vals[which] = np.array(pyPRISM.calculate.chi(p, extrapolate=False)[a, b], dtype=float)
        finally:
            _S['on'] = True
        sc = max(np.abs(vals['aa']).max(), np.abs(vals['bb']).max(), np.abs(vals['ab']).max(), 1e-300)
        if np.abs(vals['zero']).max() > 1e-12 * sc:
            ctx.violation('calc:chi-not-linear', 'chi is non-zero for vanishing direct correlations')
        if not np.allclose(vals['aa2'], 2.5 * vals['aa'], rtol=1e-10, atol=1e-12 * sc):
            ctx.violation('calc:chi-not-linear', 'chi is not linear in C_aa')
        # weights: w_aa : w_bb : w_ab = 1/R : R : -2
        waa, wbb, wab = vals['aa'][0], vals['bb'][0], vals['ab'][0]
        if not (abs(waa * Rv - wbb / Rv) <= 1e-9 * abs(wbb / Rv) and abs(wab + 2 * waa * Rv) <= 1e-9 * abs(wab)):
            ctx.violation('calc:chi-weight-ratio', 'chi weights of (C_aa, C_bb, C_ab) are in ratio %.6g : %.6g : %.6g, expected 1/R : R : -2 with R=%.6g' % (waa / waa, wbb / waa, wab / waa, Rv))
    if (n >= 2 and done == len(CALLS)) or (n == 1 and done == len([c for c in CALLS if c[0] not in MULTI])):
        ctx.nontrivial(case)
    ctx.count('object', 'hand/rank%d/H=%s/C=%s/W=%s' % (n, case['spaceH'], case['spaceC'], case.get('spaceW', 'Fourier')))
    ctx.sample({'rank': n, 'L': L, 'dr': sp['dr'], 'kT': sp['kT'], 'rho': sp['rho'], 'd': sp['d'], 'spaces': [case['spaceH'], case['spaceC']],
                'omega': {kk: v['t'] for kk, v in sp['om'].items()}}, limit=4)
