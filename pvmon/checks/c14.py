"""C14 - PairTable and ValueTable behave as symmetric keyed maps with isolated values.

Monitor shape: history + executable model.  Every operation of a generated history is applied at the
client boundary to the real table and to a small dict model; every written value carries a unique id,
so each read identifies the write it observed.  After every step the complete observable state of the
real table (all reads, all iteration modes, check()) is compared with the model.
"""
import copy
import itertools

import pickle
import warnings
import numpy as np

from pyPRISM.core.PairTable import PairTable
from pyPRISM.core.ValueTable import ValueTable

PID = 'C14'
RULE = ('cases = operation histories (<= 12 quick / <= 24 thorough steps) on a PairTable and a ValueTable over 1-4 types (type '
        'names of varying length, also non-string types); operations: set single key, set list x list, setUnset, apply in/out of place, '
        'mutate a stored value through a read handle, mutate the caller\'s object after assignment, check(), iterate (3 modes); '
        'every written value has a unique id, a third of them are falsy (and the ValueTable also gets builtin falsy values 0.0, 0, False, \'\', () and numpy arrays); non-trivial = history with >= 1 re-assignment of an already assigned key or a '
        'setUnset after a partial assignment; distinct = distinct (types, step list) digests')
ASSUMPTIONS = ['copy isolation is asserted for PairTable only (ValueTable stores references; the property only names PairTable)',
               'symmetric=True (default) tables']
MINIMA = {'quick': {'pt.step': 2000, 'pt.state_compare': 2000, 'pt.isolation_probe': 300, 'vt.step': 1000, 'pt.iter_compare': 2000},
          'thorough': {'pt.step': 100000, 'pt.state_compare': 100000, 'pt.isolation_probe': 10000, 'vt.step': 50000, 'pt.iter_compare': 100000}}
SHARDS = {'quick': 4, 'thorough': 16}
TIME_BUDGET = {'quick': 40, 'thorough': 240}

TYPESETS = [['A'], ['A', 'B'], ['A', 'B', 'C'], ['A', 'B', 'C', 'D'], ['polymer', 'solvent'], ['B', 'A'],
            ['C', 'A', 'B'], ['x1', 'x2', 'x10'], [1, 2, 3], ['AA', 'A', 'AAA'],
            ['A', 1], ['polymer', 1, 2], [1, 'B', 2.5, 'D'], ['1', 1, 'A']]          # labels of mixed kinds in one list ('1' and 1 are different labels)


class Val(object):
    """a mutable value with a unique id; deepcopy keeps uid and copies the payload list"""
    __slots__ = ('uid', 'payload', 'falsy')

    def __init__(self, uid):
        self.uid = uid
        self.payload = [uid]
        self.falsy = (uid % 3 == 0)      # every third value is falsy (like 0.0, '', [] or an empty table): still a value, not "unset"

    def __bool__(self):
        return not self.falsy

    def __repr__(self):
        return 'Val(%r,%r)' % (self.uid, self.payload)


KINDS = ['obj', 'obj', 'tuple', 'dict', 'list']


def make_value(uid, kind='obj'):
    """a value with a unique id and a mutable payload, in several Python shapes (tuples are only shallowly immutable)"""
    if kind == 'obj':
        return Val(uid)
    if kind == 'tuple':
        return ('val', uid, [uid])
    if kind == 'dict':
        return {'uid': uid, 'payload': [uid]}
    return [uid, [uid]]


def uid_of(v):
    if isinstance(v, Val):
        return v.uid
    if isinstance(v, tuple):
        return v[1]
    if isinstance(v, dict):
        return v['uid']
    if isinstance(v, list):
        return v[0]
    return repr(v)


def payload_of(v):
    if isinstance(v, Val):
        return v.payload
    if isinstance(v, tuple):
        return v[2]
    if isinstance(v, dict):
        return v['payload']
    return v[1]


def is_value(v):
    return isinstance(v, (Val, tuple, dict, list))


def bump_any(v):
    if v is None:
        return None
    if isinstance(v, Val):
        return bump(v)
    new = list(payload_of(v)) + ['applied']
    if isinstance(v, tuple):
        return ('val', uid_of(v) + 1000000, new)
    if isinstance(v, dict):
        return {'uid': uid_of(v) + 1000000, 'payload': new}
    return [uid_of(v) + 1000000, new]


def bump(v):
    if v is None:
        return None
    w = Val(v.uid + 1000000)
    w.payload = list(v.payload) + ['applied']
    w.falsy = v.falsy
    return w


def cases(ctx):
    rng = ctx.rng('c14')
    n = ctx.budget(4000, 100000)
    maxsteps = 24 if ctx.thorough() else 12
    for it in range(n):
        yield {'types': TYPESETS[int(rng.integers(0, len(TYPESETS)))], 'seed': int(rng.integers(0, 2 ** 31)),
               'nsteps': int(rng.integers(1, maxsteps + 1))}


def gen_steps(rng, types, nsteps):
    steps = []
    uid = [0]

    def nu():
        uid[0] += 1
        return uid[0]
    n = len(types)
    for _ in range(nsteps):
        k = str(rng.choice(['set1', 'set1', 'setlist', 'setlist', 'setunset', 'apply_in', 'apply_out', 'mutate_handle', 'mutate_caller', 'check', 'iter']))
        if k == 'set1':
            steps.append(['set1', int(rng.integers(0, n)), int(rng.integers(0, n)), nu()])
        elif k == 'setlist':
            l1 = sorted(set(int(x) for x in rng.integers(0, n, size=int(rng.integers(1, n + 1)))))
            l2 = sorted(set(int(x) for x in rng.integers(0, n, size=int(rng.integers(1, n + 1)))))
            form = str(rng.choice(['list', 'tuple', 'single_left', 'single_right']))
            if form == 'single_left':
                l1 = l1[:1]
            if form == 'single_right':
                l2 = l2[:1]
            steps.append(['setlist', l1, l2, nu(), form])
        elif k == 'setunset':
            steps.append(['setunset', nu()])
        elif k in ('apply_in', 'apply_out', 'check', 'iter'):
            steps.append([k])
        elif k == 'mutate_handle':
            steps.append(['mutate_handle', int(rng.integers(0, n)), int(rng.integers(0, n)), nu()])
        else:
            steps.append(['mutate_caller', int(rng.integers(0, n)), int(rng.integers(0, n)), nu()])
    return steps


def upair(a, b):
    return frozenset((a, b))


def compare_state(ctx, T, model, types, callers, where):
    """complete observable state of the real PairTable vs the model"""
    ctx.hook('pt.state_compare')
    objs = {}
    for a in types:
        for b in types:
            got = T[a, b]
            exp = model.get(upair(a, b))
            if exp is None:
                if got is not None:
                    ctx.violation('pt:unset-pair-has-value', '%s: pair (%r,%r) never assigned but reads %r' % (where, a, b, got))
                continue
            if got is None or not is_value(got):
                ctx.violation('pt:lost-write', '%s: pair (%r,%r) should hold write #%s, reads %r' % (where, a, b, exp[0], got))
                continue
            if uid_of(got) != exp[0]:
                ctx.violation('pt:wrong-write-observed', '%s: pair (%r,%r) holds write #%s, last assigned was #%s' % (where, a, b, uid_of(got), exp[0]))
            elif payload_of(got) != exp[1]:
                ctx.violation('pt:payload-leak', '%s: pair (%r,%r) payload %r, expected %r (value shared with another pair or the caller?)' % (where, a, b, payload_of(got), exp[1]))
            objs.setdefault(upair(a, b), []).append(got)
    # the two orders of one pair must read the same value
    for p, lst in objs.items():
        if len(lst) == 2 and (uid_of(lst[0]) != uid_of(lst[1]) or payload_of(lst[0]) != payload_of(lst[1])):
            ctx.violation('pt:asymmetric', '%s: (a,b) and (b,a) of %s read different values' % (where, sorted(map(str, p))))
    # isolation: distinct unordered pairs hold distinct objects, none is a caller's object
    seen = {}
    for p, lst in objs.items():
        for o in lst:
            if id(o) in seen and seen[id(o)] != p:
                ctx.violation('pt:shared-object-between-pairs', '%s: pairs %s and %s hold the very same object' % (where, sorted(map(str, p)), sorted(map(str, seen[id(o)]))))
            seen[id(o)] = p
            for c in callers:
                if o is c:
                    ctx.violation('pt:stores-callers-object', '%s: pair %s holds the caller\'s object, not a copy' % (where, sorted(map(str, p))))


def compare_iter(ctx, T, model, types, where):
    ctx.hook('pt.iter_compare')
    n = len(types)
    for kw, test in (({}, lambda i, j: i <= j), ({'full': True}, lambda i, j: True), ({'diagonal': False}, lambda i, j: i < j),
                     ({'full': False, 'diagonal': True}, lambda i, j: i <= j)):
        exp = []
        for i in range(n):
            for j in range(n):
                if test(i, j):
                    m = model.get(upair(types[i], types[j]))
                    exp.append(((i, j), (types[i], types[j]), None if m is None else m[0]))
        got = []
        for item in T.iterpairs(**kw):
            (i, j), (a, b), v = item
            got.append(((i, j), (a, b), None if v is None else uid_of(v)))
        if got != exp:
            ctx.violation('pt:iterpairs-order-or-coverage', '%s: iterpairs(%s) yields %s, expected %s' % (where, kw, got[:8], exp[:8]))
    exp = [((i, j), (types[i], types[j]), (model.get(upair(types[i], types[j])) or [None])[0]) for i in range(n) for j in range(n)]
    got = [((i, j), (a, b), None if v is None else uid_of(v)) for (i, j), (a, b), v in T]
    if got != exp:
        ctx.violation('pt:iter-order-or-coverage', '%s: iteration yields %s, expected %s' % (where, got[:8], exp[:8]))
    # two iterations of one table alive at the same time (a nested loop over pairs of pairs; check() / a read inside a loop):
    # each of them still visits every pair once, in order
    ctx.hook('pt.nested_iteration')
    exp_u = [((i, j), (types[i], types[j])) for i in range(n) for j in range(n) if i <= j]
    outer, inner_ok = [], True
    for (i, j), (a, b), v in T.iterpairs():
        outer.append(((i, j), (a, b)))
        inner = [((p, q), (c, d)) for (p, q), (c, d), w in T.iterpairs()]
        inner_ok &= (inner == exp_u)
        try:
            T.check()
        except ValueError:
            pass
        T[a, b]
        len([1 for _ in T])
    if outer != exp_u or not inner_ok:
        ctx.violation('pt:iterpairs-order-or-coverage', '%s: with a second iteration / check() running inside the loop, iterpairs() visited %s (inner loops complete: %s), expected %s' % (where, outer[:8], inner_ok, exp_u[:8]))


def compare_check(ctx, T, model, types, where):
    unset = any(model.get(upair(a, b)) is None for a in types for b in types)
    try:
        T.check()
        raised = False
    except ValueError:
        raised = True
    ctx.hook('pt.check')
    if raised != unset:
        ctx.violation('pt:check-wrong', '%s: check() %s but the table %s an unset pair' % (where, 'raised' if raised else 'did not raise', 'has' if unset else 'has no'))


TABLE_NAMES = ['monitored', 'potential', 'chi_{AB}', 'u_{ij}(r)', '{}', '100%', 'omega %s', 'a{0}b']


def _matches(T, model, types):
    """quiet comparison (write ids only): does the table read exactly as the model says, from both orders?"""
    for a in types:
        for b in types:
            got, exp = T[a, b], model.get(upair(a, b))
            if (exp is None) != (got is None) or (exp is not None and uid_of(got) != exp[0]):
                return False
    return True


def guarded_assign(ctx, T, key, v, model, after, types, where, werror):
    """T[key] = v; with warnings escalated to errors (python -W error) a warning inside the assignment refuses it by an
    exception, and the table that survives must read as wholly before or wholly after the statement - never torn."""
    if not werror:
        T[key] = v
        model.clear(); model.update(after)
        return
    ctx.hook('pt.assign_under_warnings_as_errors')
    try:
        with warnings.catch_warnings():
            warnings.simplefilter('error')
            T[key] = v
    except Warning as e:
        ctx.hook('pt.assign_refused_by_escalated_warning')
        if _matches(T, after, types):
            model.clear(); model.update(after)
        elif not _matches(T, model, types):
            ctx.violation('pt:torn-assignment-when-warning-is-error', '%s: the assignment was interrupted by an escalated %s and left the table neither as before nor as after the statement (asymmetric / partly written group)' % (where, type(e).__name__))
            model.clear(); model.update(after)
        return
    model.clear(); model.update(after)


def run_pairtable(ctx, types, steps, werror=False):
    T = PairTable(list(types), TABLE_NAMES[(len(steps) + len(types)) % len(TABLE_NAMES)])         # any string is a legal name
    model = {}           # unordered pair -> [uid, payload]
    callers = []
    reassign = False
    for k, st in enumerate(steps):
        where = 'step %d %s' % (k, st)
        ctx.hook('pt.step')
        op = st[0]
        if op == 'set1':
            a, b = types[st[1]], types[st[2]]
            v = make_value(st[3], KINDS[st[3] % len(KINDS)])
            callers.append(v)
            reassign |= upair(a, b) in model
            after = dict(model)
            after[upair(a, b)] = [uid_of(v), list(payload_of(v))]
            guarded_assign(ctx, T, (a, b), v, model, after, types, where, werror)
        elif op == 'setlist':
            l1, l2 = [types[i] for i in st[1]], [types[i] for i in st[2]]
            form = st[4]
            k1 = tuple(l1) if form == 'tuple' else (l1[0] if form == 'single_left' else list(l1))
            k2 = tuple(l2) if form == 'tuple' else (l2[0] if form == 'single_right' else list(l2))
            v = make_value(st[3], KINDS[st[3] % len(KINDS)])
            callers.append(v)
            after = dict(model)
            for a in l1:
                for b in l2:
                    reassign |= upair(a, b) in model
                    after[upair(a, b)] = [uid_of(v), list(payload_of(v))]
            guarded_assign(ctx, T, (k1, k2), v, model, after, types, where, werror)
        elif op == 'setunset':
            v = make_value(st[1], KINDS[st[1] % len(KINDS)])
            callers.append(v)
            partial = 0 < len(model)
            T.setUnset(v)
            for a in types:
                for b in types:
                    if upair(a, b) not in model:
                        model[upair(a, b)] = [uid_of(v), list(payload_of(v))]
                        reassign |= partial
        elif op == 'apply_in':
            r = T.apply(bump_any, inplace=True)
            if r is not T:
                ctx.violation('pt:apply-inplace-returns-other', '%s: apply(inplace=True) did not return the table itself' % where)
            for p in list(model):
                model[p] = [model[p][0] + 1000000, list(model[p][1]) + ['applied']]
        elif op == 'apply_out':
            identity = (k % 2 == 1)           # every other time the function hands back its argument (e.g. np.asarray, "convert if needed")
            r = T.apply((lambda v: v) if identity else bump_any, inplace=False)
            if r is T:
                ctx.violation('pt:apply-outofplace-returns-self', '%s: apply(inplace=False) returned the table itself' % where)
            else:
                m2 = {}
                for p in model:
                    m2[p] = [model[p][0], list(model[p][1])] if identity else [model[p][0] + 1000000, list(model[p][1]) + ['applied']]
                compare_state(ctx, r, m2, types, callers, where + ' [returned table]')
                # mutating the returned table must not reach the original
                for a in types:
                    for b in types:
                        h = r[a, b]
                        if h is not None:
                            payload_of(h).append('poison')
        elif op == 'mutate_handle':
            if st[3] % 4 == 0:
                # the history continues on a copy of the table (a forked System): the copy is a PairTable like any other
                T = copy.deepcopy(T) if st[3] % 8 == 0 else pickle.loads(pickle.dumps(T))
                ctx.hook('pt.history_continues_on_a_copy')
            a, b = types[st[1]], types[st[2]]
            h = T[a, b]
            if h is not None:
                ctx.hook('pt.isolation_probe')
                if upair(a, b) not in model:
                    ctx.violation('pt:wrong-write-observed', '%s: pair (%r,%r) was never assigned but reads %r' % (where, a, b, h))
                    return reassign
                payload_of(h).append(('m', st[3]))
                model[upair(a, b)][1] = model[upair(a, b)][1] + [('m', st[3])]
        elif op == 'mutate_caller':
            # the caller keeps using the object it assigned earlier
            if callers:
                ctx.hook('pt.isolation_probe')
                payload_of(callers[st[3] % len(callers)]).append(('caller', st[3]))
        elif op == 'check':
            compare_check(ctx, T, model, types, where)
        elif op == 'iter':
            pass
        compare_state(ctx, T, model, types, callers, where)
        compare_iter(ctx, T, model, types, where)
    compare_check(ctx, T, model, types, 'end of history')
    return reassign


def _mk(m):
    v = Val(m[0])
    v.payload = list(m[1])
    v.falsy = (m[0] % 1000000) % 3 == 0
    return v


class Plain(object):
    """wraps a builtin (possibly falsy) value such as 0.0, 0, False, '' so that the model can compare by identity of the write"""
    def __init__(self, uid):
        self.uid = uid


BUILTIN_FALSY = [0.0, 0, False, '', (), 0.25, 'x', np.array([1.0, 2.0, 3.0]), np.zeros(4), np.array([0.0]), [0.0, 1.0]]


def run_valuetable_builtin(ctx, types, rng):
    """builtin values including falsy ones (a zero density is a value, not 'unset')"""
    T = ValueTable(list(types), 'builtin')
    model = {}
    for step in range(6):
        ctx.hook('vt.step')
        if rng.random() < 0.6:
            t = types[int(rng.integers(0, len(types)))]
            v = BUILTIN_FALSY[int(rng.integers(0, len(BUILTIN_FALSY)))]
            T[t] = v
            model[t] = v
            what = 'set %r=%r' % (t, v)
        else:
            v = float(rng.uniform(1, 2))
            T.setUnset(v)
            for a in types:
                if a not in model:
                    model[a] = v
            what = 'setUnset(%r)' % v
        for a in types:
            got = T[a]
            if a in model:
                same = type(got) is type(model[a]) and (np.array_equal(got, model[a]) if isinstance(got, np.ndarray) else got == model[a])
                if not same:
                    ctx.violation('vt:wrong-value', 'after %s: type %r reads %r, last assigned %r (falsy values are values, not "unset")' % (what, a, got, model[a]))
                    return
            elif got is not None:
                ctx.violation('vt:wrong-value', 'after %s: never assigned type %r reads %r' % (what, a, got))
                return
        unset = any(a not in model for a in types)
        try:
            T.check()
            raised = False
        except ValueError:
            raised = True
        if raised != unset:
            ctx.violation('vt:check-wrong', 'after %s: check() %s but the table %s an unset type' % (what, 'raised' if raised else 'did not raise', 'has' if unset else 'has no'))
            return


class SeqVal(list):
    """a list used as a table VALUE (carries the write id like Val)"""
    uid = None


class TupVal(tuple):
    uid = None


def run_valuetable(ctx, types, steps):
    T = ValueTable(list(types), TABLE_NAMES[(len(steps) + 3 * len(types)) % len(TABLE_NAMES)])
    model = {}
    for k, st in enumerate(steps):
        where = 'step %d %s' % (k, st)
        ctx.hook('vt.step')
        op = st[0]
        if op == 'set1':
            v = Val(st[3])
            T[types[st[1]]] = v
            model[types[st[1]]] = v
        elif op == 'setlist':
            v = Val(st[3])
            keys = [types[i] for i in st[1]]
            if st[3] % 3 == 0:
                # the value itself is a sequence (a legal value) that happens to be as long as the key list: it is THE value of every key
                v = SeqVal([Val(st[3]) for _ in keys]) if st[3] % 2 else TupVal(Val(st[3]) for _ in keys)
                v.uid = st[3]
            T[tuple(keys) if st[4] == 'tuple' else list(keys)] = v
            for a in keys:
                model[a] = v
        elif op == 'setunset':
            v = Val(st[1])
            T.setUnset(v)
            for a in types:
                if a not in model:
                    model[a] = v
        for a in types:
            got, exp = T[a], model.get(a)
            if (exp is None) != (got is None) or (exp is not None and (getattr(got, 'uid', 'no-uid') != exp.uid or type(got) is not type(exp))):
                ctx.violation('vt:wrong-value', '%s: type %r reads %r, expected write #%s' % (where, a, got, None if exp is None else exp.uid))
        got = [(i, t, None if v is None else getattr(v, 'uid', 'no-uid')) for i, t, v in T]
        exp = [(i, t, None if model.get(t) is None else model[t].uid) for i, t in enumerate(types)]
        if got != exp:
            ctx.violation('vt:iteration', '%s: iteration yields %s, expected %s' % (where, got, exp))
        unset = any(model.get(a) is None for a in types)
        try:
            T.check()
            raised = False
        except ValueError:
            raised = True
        if raised != unset:
            ctx.violation('vt:check-wrong', '%s: check() %s but the table %s an unset type' % (where, 'raised' if raised else 'did not raise', 'has' if unset else 'has no'))


def run_case(ctx, case):
    rng = np.random.default_rng(case['seed'])
    types = list(case['types'])
    steps = gen_steps(rng, types, int(case['nsteps']))
    reassign = run_pairtable(ctx, types, steps, werror=(case['seed'] % 4 == 2))
    run_valuetable(ctx, types, [s for s in steps if s[0] in ('set1', 'setlist', 'setunset')])
    run_valuetable_builtin(ctx, types, rng)
    if reassign:
        ctx.nontrivial([types, steps])
    ctx.count('ntypes', len(types))
    for s in steps:
        ctx.count('op', s[0])
    ctx.sample({'types': types, 'steps': steps}, limit=3)
