"""C12 - Tabulated omega is used verbatim on a matching grid and rejected otherwise.

Monitor shape: outcome classification against an executable model.  For every generated (data, k column,
Domain) combination the model says "match" (-> values must come back bit-for-bit) or "mismatch"
(-> an exception at calculate, or for a one-column file at the latest at createPRISM / first cost);
the real FromArray / FromFile / createPRISM / cost calls are observed and compared with that verdict.
Aliasing with the caller's array is probed by mutating it after construction.
"""
import os
import shutil
import tempfile

import copy
import pickle
import numpy as np

import pyPRISM

from .. import core
from .. import gen as G

PID = 'C12'
RULE = ('cases = (source FromArray | one-column file | two-column file, Domain(length 3..2048, dr|dk), data length equal / truncated / extended, '
        'k column absent / equal / shifted / rescaled / reversed / NaN or inf in one point / perturbed in a single point with relative size 1e-13..1e-1 (borderline cases '
        'decided by np.allclose itself), rank-1 or rank-2 system for the createPRISM stage); non-trivial = a k column or a length mismatch is '
        'involved; distinct = distinct case digests')
ASSUMPTIONS = ['np.allclose (rtol 1e-5, atol 1e-8) is the matching criterion, as the property states',
               'text files are written with repr precision so that loading reproduces the doubles exactly',
               'single-row files (np.loadtxt cannot tell a 1-row two-column file from a 2-row one-column file) only have to be rejected by createPRISM / the first cost evaluation on domains of >= 3 points']
MINIMA = {'quick': {'match.values_identical': 150, 'mismatch.rejected': 300, 'alias_probe': 100, 'system_stage': 100},
          'thorough': {'match.values_identical': 5000, 'mismatch.rejected': 10000, 'alias_probe': 3000, 'system_stage': 3000}}
SHARDS = {'quick': 4, 'thorough': 16}
TIME_BUDGET = {'quick': 40, 'thorough': 200}

_S = {'dir': None}


def setup(ctx):
    base = os.path.join(core.OUT, '.work')
    os.makedirs(base, exist_ok=True)
    _S['dir'] = tempfile.mkdtemp(prefix='c12-files-', dir=base)


def finish(ctx):
    if _S['dir']:
        shutil.rmtree(_S['dir'], ignore_errors=True)


def cases(ctx):
    rng = ctx.rng('c12')
    if ctx.mine(0):
        yield {'src': 'repo_data'}
    for it in range(max(2, ctx.budget(40, 800))):
        yield {'src': 'table_as_array', 'L': int(rng.choice([8, 16, 64, 100, 128, 512, 1024])), 'seed': int(rng.integers(0, 2 ** 31))}
    n = ctx.budget(1000, 40000)
    for it in range(max(4, n // 25)):
        # files with a single data row: np.loadtxt returns a 0-d (one column) or 1-d (two columns) array
        yield {'src': str(rng.choice(['file1', 'file2'])), 'L': int(rng.choice([3, 4, 16, 64, 100])), 'dom': 'dr', 'sp': 0.1, 'len': 'single_row', 'kmod': 'equal',
               'mag': 0.0, 'rank': int(rng.integers(1, 3)), 'seed': int(rng.integers(0, 2 ** 31)), 'listinput': False}
    for it in range(n):
        yield {'src': str(rng.choice(['array', 'array_k', 'array_k', 'file1', 'file2', 'file2'])),
               'L': int(rng.choice([3, 4, 16, 64, 100, 128, 512, int(rng.integers(3, 2049))])),
               'dom': str(rng.choice(['dr', 'dk'])), 'sp': float(rng.choice([0.1, 0.05, 0.25, 0.01, float(10 ** rng.uniform(-2, 0))])),
               'len': str(rng.choice(['equal', 'equal', 'equal', 'truncated', 'extended'])),
               'kmod': str(rng.choice(['equal', 'equal', 'shifted', 'rescaled', 'reversed', 'single', 'single', 'single', 'nan', 'inf'])),
               'mag': float(10 ** rng.uniform(-13, -1)), 'rank': int(rng.integers(1, 3)), 'seed': int(rng.integers(0, 2 ** 31)),
               'listinput': bool(rng.random() < 0.2)}


FILE_STYLES = ['plain', 'plain', 'right_aligned', 'tabs', 'header', 'blank_lines', 'crlf', 'no_final_newline', 'leading_tab']


def write_file(path, cols, style='plain'):
    """text-file variants that np.loadtxt reads alike (every number round-trips exactly): repr, right-aligned fixed width (lines start
    with blanks, as np.savetxt(fmt='%25.17e') or Fortran write them), tab separated, '#' header block, blank lines, CRLF, no final newline"""
    nl = '\r\n' if style == 'crlf' else '\n'
    lines = []
    if style == 'header':
        lines += ['# k omega', '#   generated for a test', '#']
    for n_, row in enumerate(zip(*cols)):
        if style == 'right_aligned':
            lines.append(''.join('%26.17e' % float(x) for x in row))
        elif style == 'tabs':
            lines.append('\t'.join(repr(float(x)) for x in row))
        elif style == 'leading_tab':
            lines.append('\t' + ' '.join(repr(float(x)) for x in row))
        else:
            lines.append(' '.join(repr(float(x)) for x in row))
        if style == 'blank_lines' and n_ % 7 == 3:
            lines.append('')
    with open(path, 'w', newline='') as f:
        f.write(nl.join(lines) + ('' if style == 'no_final_newline' else nl))


def run_repo_data(ctx, case):
    """the tabulated form factors shipped in repo/data (two-column files with comment headers; '.dat' whitespace and '.csv' comma
    separated, written for Domain(dr=0.1, length=1024) or for other grids): verbatim on the matching grid, refused on another one"""
    data_dir = os.path.join(core.REPO, 'data')
    names = sorted(f for f in os.listdir(data_dir) if 'Omega' in f)
    dom = pyPRISM.Domain(dr=0.1, length=1024)
    other = pyPRISM.Domain(dr=0.05, length=1024)
    k = np.array(dom.k)
    used = 0
    for name in names:
        path = os.path.join(data_dir, name)
        rows = [[float(x) for x in ln.replace(',', ' ').split()] for ln in open(path) if ln.strip() and not ln.lstrip().startswith('#')]
        cols = np.array(rows)
        matches = cols.shape[0] == len(k) and cols.shape[1] == 2 and np.allclose(cols[:, 0], k)
        ctx.hook('repo_data_file')
        try:
            with np.errstate(all='ignore'):
                out = np.asarray(pyPRISM.omega.FromFile(path).calculate(np.array(k)))
            raised = None
        except Exception as e:   # noqa
            raised = e
        if matches:
            used += 1
            if raised is not None:
                ctx.violation('tab:matching-data-refused:repo-data', 'repo/data/%s matches the k grid of Domain(dr=0.1,length=1024) but FromFile raises %s: %s' % (name, type(raised).__name__, str(raised)[:100]))
            elif out.shape != (len(k),) or not np.array_equal(out, cols[:, 1]):
                ctx.violation('tab:not-verbatim:repo-data', 'repo/data/%s is not returned unchanged on its own grid' % name)
            try:
                with np.errstate(all='ignore'):
                    pyPRISM.omega.FromFile(path).calculate(np.array(other.k))
                ctx.violation('tab:mismatch-accepted:repo-data-other-grid', 'repo/data/%s (tabulated for dr=0.1) is accepted on the grid of Domain(dr=0.05,length=1024)' % name)
            except Exception:   # noqa
                ctx.hook('mismatch.rejected')
        elif raised is None and cols.shape[1] == 2:
            ctx.violation('tab:mismatch-accepted:repo-data', 'repo/data/%s (%d rows, k from %g) does not match Domain(dr=0.1,length=1024) but is accepted' % (name, cols.shape[0], cols[0, 0]))
        else:
            ctx.hook('mismatch.rejected')
    ctx.count('repo_data_files', '%d files, %d on the tutorial grid' % (len(names), used))
    if used:
        ctx.nontrivial(['repo_data'])


def run_table_as_array(ctx, case):
    """a whole tabulated (k, omega) table - rows x 2 columns, or transposed - handed to FromArray as `omega`: the number of POINTS is
    its first dimension, which differs from the domain length although the number of NUMBERS may equal it"""
    rng = np.random.default_rng(case['seed'])
    L = int(case['L'])
    dom = pyPRISM.Domain(length=L, dr=0.1)
    k = np.array(dom.k)
    for shape in ((L // 2, 2), (2, L // 2), (L // 4, 4), (L // 2, 1, 2)):
        if 0 in shape or int(np.prod(shape)) != L:
            continue
        tab = rng.uniform(0.1, 5.0, size=shape)
        ctx.hook('table_as_array')
        try:
            with np.errstate(all='ignore'):
                out = np.asarray(pyPRISM.omega.FromArray(np.array(tab)).calculate(np.array(k)))
        except Exception as e:   # noqa
            if not isinstance(e, (AssertionError, ValueError, IndexError, TypeError)):
                raise
            ctx.hook('mismatch.rejected')
            continue
        ctx.violation('tab:mismatch-accepted:multidimensional-array', 'FromArray given an array of shape %s (%d points) returned %s values on a %d-point grid instead of raising' % (shape, shape[0], out.shape, L))
        return
    ctx.nontrivial(case)


def run_case(ctx, case):
    if case.get('src') == 'repo_data':
        return run_repo_data(ctx, case)
    if case.get('src') == 'table_as_array':
        return run_table_as_array(ctx, case)
    rng = np.random.default_rng(case['seed'])
    L = int(case['L'])
    dom = pyPRISM.Domain(length=L, dr=case['sp']) if case['dom'] == 'dr' else pyPRISM.Domain(length=L, dk=case['sp'])
    k = np.array(dom.k)
    n = {'equal': L, 'truncated': max(2, L - int(rng.integers(1, max(2, L // 2)))), 'extended': L + int(rng.integers(1, L + 1)), 'single_row': 1}[case['len']]
    if n == L and case['len'] != 'equal':
        n = L + 1
    data = rng.uniform(0.1, 5.0, size=n)
    src = case['src']
    has_k = src in ('array_k', 'file2')
    # ---- k column supplied by the user
    if has_k:
        kk = (k[:n] if n <= L else np.concatenate([k, k[-1] + dom.dk * np.arange(1, n - L + 1)])).copy()
        km = case['kmod']
        if km == 'shifted':
            kk = kk + case['mag'] * dom.dk * 10
        elif km == 'rescaled':
            kk = kk * (1 + case['mag'])
        elif km == 'reversed':
            kk = kk[::-1].copy()
        elif km == 'single':
            i = int(rng.integers(0, len(kk)))
            kk[i] = kk[i] * (1 + case['mag'] * float(rng.choice([-1, 1])))
        elif km in ('nan', 'inf'):
            kk[int(rng.integers(0, len(kk)))] = np.nan if km == 'nan' else np.inf        # a hole in the tabulated grid
    else:
        kk = None
    # ---- model verdict
    if n != L:
        expect = 'reject'
    elif kk is None:
        expect = 'match'
    else:
        a, b = np.allclose(kk, k), np.allclose(k, kk)
        if a != b:
            raise core.Skip('allclose asymmetric borderline')
        expect = 'match' if a else 'reject'
    late_ok = (src == 'file1') or case['len'] == 'single_row'      # one-column file of the wrong length (and any single-row file, which numpy
    # cannot tell apart): may be rejected as late as createPRISM / first cost
    # ---- build the real object
    caller = np.array(data)
    if src in ('array', 'array_k'):
        arg = caller.tolist() if case['listinput'] else caller
        om = pyPRISM.omega.FromArray(arg, k=(None if kk is None else (kk.tolist() if case['listinput'] else kk)))
    else:
        path = os.path.join(_S['dir'], 'w%d_%d.dat' % (os.getpid(), case['seed']))
        fstyle = FILE_STYLES[case['seed'] % len(FILE_STYLES)]
        ctx.count('file_style', fstyle)
        write_file(path, [kk, data] if src == 'file2' else [data], fstyle)
        om = pyPRISM.omega.FromFile(path)
    # ---- aliasing probe: the caller keeps using (and changing) its arrays
    if src in ('array', 'array_k') and not case['listinput']:
        ctx.hook('alias_probe')
        caller[:] = -777.0
        if kk is not None:
            if expect == 'match':
                kk[:] = kk + 1.0        # an object that kept a reference to the caller's k would now reject
    # ---- the object that is evaluated is often a COPY of the one the user made (table assignment and PRISM.__init__ deep-copy; a job may be pickled)
    cp_kind = ['none', 'none', 'deepcopy', 'pickle', 'table'][case['seed'] % 5]
    if cp_kind == 'deepcopy':
        om = copy.deepcopy(om)
    elif cp_kind == 'pickle':
        om = pickle.loads(pickle.dumps(om))
    elif cp_kind == 'table':
        tb = pyPRISM.PairTable(['A'], 'omega')
        tb['A', 'A'] = om
        om = tb['A', 'A']
    ctx.count('evaluated_object', cp_kind)
    # ---- stage 1: calculate
    stage = None
    try:
        out = om.calculate(np.array(k))
        outcome = 'returned'
    except Exception as e:   # noqa - "raises an error": any exception counts as a rejection
        outcome = 'raised'
        stage = 'calculate'
        if not isinstance(e, (AssertionError, ValueError, IndexError, TypeError)):
            raise
    if outcome == 'returned':
        out = np.asarray(out)
        if expect == 'match':
            ctx.hook('match.values_identical')
            if out.shape != data.shape or not np.array_equal(out, data):
                if np.any(out == -777.0):
                    ctx.violation('tab:callers-later-writes-leak', '%s: values returned by calculate changed when the caller modified its own array afterwards' % src)
                else:
                    ctx.violation('tab:values-not-verbatim', '%s: calculate returned values that differ from the supplied data (L=%d)' % (src, L))
        else:
            if not late_ok:
                why = 'length %d vs domain %d' % (n, L) if n != L else 'k column differs (%s, rel %.1e) beyond allclose' % (case['kmod'], case['mag'])
                ctx.violation('tab:mismatch-accepted:%s' % ('length' if n != L else 'k-' + case['kmod']), '%s.calculate returned values although %s' % (src, why))
    elif expect == 'match':
        ctx.violation('tab:matching-data-rejected', '%s.calculate raised although the data matches the domain (L=%d, kmod=%s mag=%.1e)' % (src, L, case['kmod'], case['mag']))
    else:
        ctx.hook('mismatch.rejected')
    # ---- the same omega object evaluated again on ANOTHER grid: the verdict is about that grid, not about the first call
    if outcome == 'returned' and expect == 'match' and rng.random() < 0.6:
        ctx.hook('reuse_on_other_grid')
        mode = str(rng.choice(['longer', 'shorter', 'rescaled', 'edited_in_place'] if has_k else ['longer', 'shorter']))
        if mode == 'edited_in_place':
            # the very array object that was accepted a moment ago, changed in place by its owner
            kk2 = np.array(k)
            om.calculate(kk2)
            kk2 *= 1.01
            k2 = kk2
        elif mode == 'longer':
            k2 = np.concatenate([k, k[-1] + dom.dk * np.arange(1, 4)])
        elif mode == 'shorter':
            k2 = k[:-1].copy()
        else:
            k2 = k * 1.01
        try:
            out2 = om.calculate(k2 if mode == 'edited_in_place' else np.array(k2))
            ctx.violation('tab:mismatch-accepted:second-call-other-grid', '%s object evaluated first on its own grid and then on a %s grid returned values instead of raising' % (src, mode)) if not (src == 'file1') else None
        except Exception as e:   # noqa
            if not isinstance(e, (AssertionError, ValueError, IndexError, TypeError)):
                raise
            ctx.hook('mismatch.rejected')
        # and afterwards it still serves its own grid verbatim
        out3 = np.asarray(om.calculate(np.array(k)))
        if out3.shape != data.shape or not np.array_equal(out3, data):
            ctx.violation('tab:values-not-verbatim:after-reuse', '%s: values change after the object was evaluated on another grid' % src)
    # ---- stage 2: the System level (wrong-length one-column file must be stopped here at the latest; matching data must arrive verbatim)
    if (expect == 'reject' and late_ok and outcome == 'returned') or (expect == 'match' and outcome == 'returned' and rng.random() < 0.5):
        ctx.hook('system_stage')
        rank = int(case['rank'])
        types = list('AB')[:rank]
        sp = dict(types=types, dr=dom.dr, L=L, d={t: 1.0 for t in types}, rho={t: float(rng.uniform(0.05, 0.4)) for t in types}, kT=1.0, pot={}, clo={}, om={})
        for (i, j), (a, b) in G.pairs(types):
            sp['pot'][G.pk(a, b)] = {'t': 'HS'}
            sp['clo'][G.pk(a, b)] = {'t': 'PY', 'hc': True}
            sp['om'][G.pk(a, b)] = {'t': 'SS'} if a == b else {'t': 'NI'}
        s = G.build(sp)
        s.domain = dom
        target = ('A', 'A') if rank == 1 or rng.random() < 0.5 else ('A', 'B')
        s.omega[target] = om
        produced = None
        try:
            with np.errstate(all='ignore'):
                p = s.createPRISM()
                p.cost(np.zeros(rank * rank * L))
            produced = np.array(p.omega[target])
        except Exception as e:   # noqa
            if not isinstance(e, (AssertionError, ValueError, IndexError, TypeError)):
                raise
        if expect == 'reject':
            if produced is not None:
                ctx.violation('tab:mismatch-accepted:onecolumn-file-length', 'one-column file with %d values on a domain of %d points went through createPRISM and cost without an error' % (n, L))
            else:
                ctx.hook('mismatch.rejected')
        else:
            if produced is None:
                ctx.violation('tab:matching-data-rejected', 'createPRISM/cost raised for matching tabulated data (%s)' % src)
            else:
                site = sp['rho']['A'] if target == ('A', 'A') else sp['rho']['A'] + sp['rho']['B']
                if produced.shape != data.shape or not np.allclose(produced, data * site, rtol=4e-16, atol=0):
                    ctx.violation('tab:prism-omega-not-verbatim', 'PRISM.omega[%s,%s] is not the supplied data times the site density' % target)
    if has_k or n != L:
        ctx.nontrivial(case)
    ctx.count('source', src)
    ctx.count('expect', expect)
    ctx.count('k_column', case['kmod'] if has_k else 'none')
    ctx.count('outcome', '%s/%s' % (expect, outcome))
    ctx.sample({'source': src, 'domain': {'L': L, case['dom']: case['sp']}, 'data_len': n, 'k_column': (case['kmod'], case['mag']) if has_k else None,
                'expect': expect, 'outcome': outcome}, limit=5)
