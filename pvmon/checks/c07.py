"""C07 - Real/Fourier transforms are exact mutual inverses on every reachable Domain.

Monitor shape: invariant at a hook.  The Domain constructor and the three property setters
are wrapped on the class; after every one of them returns the monitor evaluates the grid
invariants on the live object and compares it with a freshly constructed Domain.  Transform
outputs are compared with the dense reference matrices of refmodel (independent of scipy).
"""
import copy
import json
import os
import math
import pickle
import warnings

import numpy as np

import pyPRISM
from pyPRISM.core.Domain import Domain
from pyPRISM.core.MatrixArray import MatrixArray
from pyPRISM.core.Space import Space

from .. import core
from .. import suite as SUITE
from .. import refmodel as R

PID = 'C07'
RULE = ('cases = (constructor via dr|dk, length 1..4097 incl. primes/odd/powers of two, spacing log-uniform 1e-3..2 or '
        'one of 0.1,0.3,0.7,1/3,0.07, setter history of 0..6 assignments to dr/dk/length, array kind rand|smooth|spike, '
        'MatrixArray rank 1..4 with C / Fortran / pair-wise assembled / sliced data layouts); non-trivial = the history ended in a usable domain and all invariant + transform '
        'oracles were evaluated; distinct = distinct (ctor,length,spacing,history,array kind,rank) digests')
ASSUMPTIONS = ['numpy FFT / dense sine matrices are a correct reference for DST-II/III',
               'IEEE double arithmetic; tolerances are multiples of machine epsilon scaled by L log L']
MINIMA = {'quick': {'invariant@init': 100, 'invariant@setter': 100, 'roundtrip': 100, 'dense_ref': 50, 'matrixarray': 50},
          'thorough': {'invariant@init': 2000, 'invariant@setter': 2000, 'roundtrip': 2000, 'dense_ref': 500, 'matrixarray': 500}}
SHARDS = {'quick': 4, 'thorough': 16}
TIME_BUDGET = {'quick': 40, 'thorough': 240}

EPS = np.finfo(float).eps
PRIMES = [2, 3, 5, 7, 11, 13, 97, 101, 257, 509, 1021, 2039, 4093]
SPECIAL = [0.1, 0.3, 0.7, 1.0 / 3.0, 0.07, 0.25, 0.05]

_state = {'ctx': None, 'depth': 0}


# ----------------------------------------------------------------------------- the invariant

def grid_invariant(d, where):
    """returns list of (mechanism, message); empty when the invariant holds"""
    bad = []
    L = d.length
    r, k = np.asarray(d.r), np.asarray(d.k)
    if len(r) != L or len(k) != L:
        return [('grid-size', '%s: length=%r but len(r)=%d len(k)=%d (dr=%r dk=%r)' % (where, L, len(r), len(k), d.dr, d.dk))]
    i = np.arange(1, L + 1, dtype=float)
    er = np.abs(r - i * d.dr) / (EPS * np.abs(i * d.dr))
    ek = np.abs(k - i * d.dk) / (EPS * np.abs(i * d.dk))
    _state['ctx'].observe('grid_ulps/4', max(er.max(), ek.max()) / 4.0)
    if er.max() > 4:
        bad.append(('r-grid', '%s: r_i != (i+1)dr, worst %.1f ulp at i=%d (L=%d dr=%r)' % (where, er.max(), int(er.argmax()), L, d.dr)))
    if ek.max() > 4:
        bad.append(('k-grid', '%s: k_j != (j+1)dk, worst %.1f ulp at j=%d (L=%d dk=%r)' % (where, ek.max(), int(ek.argmax()), L, d.dk)))
    epi = abs(d.dr * d.dk * L - math.pi) / math.pi / EPS
    _state['ctx'].observe('dr*dk*L=pi/8ulp', epi / 8.0)
    if epi > 8:
        bad.append(('conjugate-spacing', '%s: dr*dk*length = %.17g != pi (L=%d dr=%r dk=%r)' % (where, d.dr * d.dk * L, L, d.dr, d.dk)))
    return bad


def fresh_equal(d, where):
    """indistinguishable from Domain(length, dr=dr): every attribute of a fresh object matches"""
    bad = []
    _state['depth'] += 1
    try:
        f = Domain(length=d.length, dr=d.dr)
    finally:
        _state['depth'] -= 1
    for name, fv in vars(f).items():
        if name not in vars(d):
            bad.append(('fresh-differs', '%s: attribute %s missing' % (where, name)))
            continue
        dv = vars(d)[name]
        if isinstance(fv, np.ndarray):
            dv = np.asarray(dv)
            if dv.shape != fv.shape:
                bad.append(('fresh-differs', '%s: %s has shape %s, fresh Domain(length=%d,dr=%r) has %s' % (where, name, dv.shape, d.length, d.dr, fv.shape)))
            else:
                e = np.abs(dv - fv) / (EPS * np.maximum(np.abs(fv), 1e-300))
                if e.size and e.max() > 8:
                    bad.append(('fresh-differs', '%s: %s differs from fresh Domain(length=%d,dr=%r) by %.3g ulp (stale?)' % (where, name, d.length, d.dr, e.max())))
        elif isinstance(fv, (int, float, np.floating, np.integer)):
            if abs(dv - fv) > 8 * EPS * abs(fv):
                bad.append(('fresh-differs', '%s: %s=%r, fresh Domain(length=%d,dr=%r) has %r (stale?)' % (where, name, dv, d.length, d.dr, fv)))
    return bad


def after_hook(d, where, kind):
    ctx = _state['ctx']
    if ctx is None or _state['depth'] > 0:
        return
    ctx.hook('invariant@' + kind)
    for mech, msg in grid_invariant(d, where) + fresh_equal(d, where):
        ctx.violation(mech + '@' + kind_of(where), msg)


def kind_of(where):
    return where.split('(')[0]


def setup(ctx):
    _state['ctx'] = ctx
    if getattr(Domain, '_pvmon_wrapped', False):
        return
    orig_init = Domain.__init__

    def init(self, *a, **kw):
        _state['depth'] += 1
        try:
            orig_init(self, *a, **kw)
        finally:
            _state['depth'] -= 1
        after_hook(self, 'init(%s)' % ','.join(['%r' % (x,) for x in a] + ['%s=%r' % kv for kv in kw.items()]), 'init')
    Domain.__init__ = init
    for name in ('dr', 'dk', 'length'):
        prop = Domain.__dict__[name]

        def make(prop, name):
            def fset(self, value):
                _state['depth'] += 1
                try:
                    prop.fset(self, value)
                finally:
                    _state['depth'] -= 1
                after_hook(self, 'set_%s(%r)' % (name, value), 'setter')
            return property(prop.fget, fset, prop.fdel, prop.__doc__)
        setattr(Domain, name, make(prop, name))
    Domain._pvmon_wrapped = True


# ----------------------------------------------------------------------------- cases

def draw_length(rng, hi=4098):
    c = int(rng.integers(0, 4))
    if c == 0:
        return int(rng.integers(1, hi))
    if c == 1:
        return int(rng.choice([p for p in PRIMES if p < hi]))
    if c == 2:
        return int(2 ** rng.integers(0, int(math.log2(hi - 1)) + 1))
    return int(rng.integers(1, 130))


def draw_spacing(rng):
    if rng.random() < 0.4:
        return float(rng.choice(SPECIAL))
    if rng.random() < 0.1:
        return int(rng.integers(1, 4))                 # a spacing typed as an integer (units in which dr or dk is 1, 2, 3)
    return float(10 ** rng.uniform(-3, 0.3))


def cases(ctx):
    if ctx.mine(2):
        yield {'kind': 'reload'}
    if ctx.mine(1):
        yield {'kind': 'repo_suite'}          # the repository's own tests, run in-process under this check's monitors
    rng = ctx.rng('c07')
    n = ctx.budget(600, 40000)
    hi = 4098 if ctx.thorough() else 2050
    # systematic part: every small length x special spacing, both constructors, plus a length change
    idx = 0
    for L in list(range(1, 41)) + [64, 100, 128, 200, 256, 512, 1000, 1024]:
        for sp in SPECIAL:
            for ctor in ('dr', 'dk'):
                idx += 1
                if not ctx.mine(idx):
                    continue
                if not ctx.thorough() and idx % 4 != ctx.seed % 4:
                    continue
                yield {'ctor': ctor, 'L': L, 'sp': sp, 'ops': [['length', 2 * L]] if L % 2 else [], 'arr': 'rand',
                       'aseed': idx, 'rank': 1 + idx % 3}
    for big in (46341, 50000, 65536):
        idx += 1
        if ctx.mine(idx):
            # lengths whose square does not fit into 32 bits, handed over as np.int32 (aseed % 5 == 3)
            yield {'ctor': ['dr', 'dk'][big % 2], 'L': big, 'sp': 0.05, 'ops': [], 'arr': 'smooth', 'aseed': 5 * big + 3, 'rank': 1}
    for it in range(n):
        ops = []
        for _ in range(int(rng.integers(0, 7)) if rng.random() < 0.8 else 0):
            op = str(rng.choice(['dr', 'dk', 'length']))
            if rng.random() < 0.1:
                ops.append(['copy', str(rng.choice(['deepcopy', 'pickle', 'shallow']))])
            ops.append([op, draw_length(rng, hi) if op == 'length' else draw_spacing(rng)])
        yield {'ctor': str(rng.choice(['dr', 'dk'])), 'L': draw_length(rng, hi), 'sp': draw_spacing(rng), 'ops': ops,
               'arr': str(rng.choice(['rand', 'smooth', 'spike'])), 'aseed': int(rng.integers(0, 2 ** 31)),
               'rank': int(rng.integers(1, 7))}


def make_array(kind, L, rng, x):
    if kind == 'rand':
        return rng.normal(size=L)
    if kind == 'smooth':
        t = x / x[-1]
        return np.exp(-8 * t) * np.cos(20 * t) * float(rng.uniform(0.1, 10))
    a = np.zeros(L)
    a[int(rng.integers(0, L))] = 1e3
    return a


RELOAD_SCRIPT = r"""
import importlib, json, sys, warnings
warnings.simplefilter('ignore')
import numpy as np
import pyPRISM
import pyPRISM.core.Space
obs = {}
d = pyPRISM.Domain(length=64, dr=0.1)
def mk(space):
    return pyPRISM.MatrixArray(length=64, rank=2, data=np.ones((64, 2, 2)), space=space, types=['A', 'B'])
Space = pyPRISM.Space
for phase in ('before', 'after'):
    if phase == 'after':
        importlib.reload(pyPRISM.core.Space)          # e.g. IPython %autoreload while Domain and MatrixArray stay loaded
    m = mk(Space.Real)
    try:
        d.MatrixArray_to_fourier(m)
        obs[phase + ':forward_flag_is_fourier'] = bool(m.space == Space.Fourier)
    except Exception as e:
        obs[phase + ':forward_raised'] = type(e).__name__
    m2 = mk(Space.Real)
    try:
        d.MatrixArray_to_real(m2)
        obs[phase + ':to_real_accepts_real_array'] = True
    except Exception:
        obs[phase + ':to_real_accepts_real_array'] = False
    m3 = mk(Space.Fourier)
    try:
        d.MatrixArray_to_fourier(m3)
        obs[phase + ':to_fourier_accepts_fourier_array'] = True
    except Exception:
        obs[phase + ':to_fourier_accepts_fourier_array'] = False
    a, b = mk(Space.Real), mk(Space.Real)
    d.MatrixArray_to_fourier(a) if not obs.get(phase + ':forward_raised') else None
    try:
        d.MatrixArray_to_fourier(b)
        (a + b)
        obs[phase + ':arithmetic_between_two_transformed_arrays'] = True
    except Exception as e:
        obs[phase + ':arithmetic_between_two_transformed_arrays'] = type(e).__name__
print('OBS ' + json.dumps(obs))
"""


def run_reload(ctx, case):
    """a reload of pyPRISM.core.Space (an interactive session with autoreload) while Domain and MatrixArray stay loaded: arrays created
    before and after must still be transformed, refused and flagged as before.  Runs in a subprocess: a reload is not undone."""
    import subprocess
    import sys as _sys
    env = dict(os.environ, PYTHONPATH=core.REPO, PYTHONWARNINGS='ignore')
    p = subprocess.run([_sys.executable, '-c', RELOAD_SCRIPT], env=env, stdout=subprocess.PIPE, stderr=subprocess.STDOUT, universal_newlines=True, timeout=120)
    line = [l for l in p.stdout.splitlines() if l.startswith('OBS ')]
    if not line:
        raise core.HarnessError('C07 reload probe produced no observation: %s' % p.stdout[-300:])
    obs = json.loads(line[0][4:])
    ctx.hook('module_reload_probe')
    want = {'forward_flag_is_fourier': True, 'to_real_accepts_real_array': False, 'to_fourier_accepts_fourier_array': False, 'arithmetic_between_two_transformed_arrays': True}
    for phase in ('before', 'after'):
        for k, v in want.items():
            got = obs.get('%s:%s' % (phase, k), obs.get('%s:forward_raised' % phase))
            if got != v:
                ctx.violation('ma-transform-after-module-reload:%s' % k if phase == 'after' else 'ma-transform-subprocess-baseline:%s' % k,
                              '%s reloading pyPRISM.core.Space: %s is %r, expected %r' % (phase, k, got, v))
    ctx.nontrivial(['reload'])


def run_case(ctx, case):
    if case.get('kind') == 'reload':
        return run_reload(ctx, case)
    if case.get('kind') == 'repo_suite':
        return SUITE.run(ctx, pattern='[!C]*_test.py')       # everything but the CalcPRISM tests (17 s of solving that adds no events here)
    rng = np.random.default_rng(case['aseed'])
    L0, sp = int(case['L']), (case['sp'] if isinstance(case['sp'], int) else float(case['sp']))
    # the number of points is often a numpy integer (len of an array, a value read from a file header): int16 / int32 / int64 carriers
    carrier = [int, int, np.int64, np.int32, np.int16][case['aseed'] % 5]
    ilen = (lambda v: carrier(v)) if (carrier is not np.int16 or max([L0] + [int(v) for o, v in case['ops'] if o == 'length']) < 32000) else int
    ctx.count('length_carrier', carrier.__name__ if ilen is not int else 'int')
    L0 = ilen(L0)
    if case['aseed'] % 4 == 1:
        # positional arguments, in the documented order (length, dr, dk)
        d = Domain(L0, sp) if case['ctor'] == 'dr' else Domain(L0, None, sp)
        ctx.hook('positional_constructor')
    else:
        d = Domain(length=L0, dr=sp) if case['ctor'] == 'dr' else Domain(length=L0, dk=sp)
    if case['aseed'] % 16 == 3:
        # argument validation of the constructor: exactly one of dr, dk
        ctx.hook('constructor_argument_validation')
        for kw, what in (({}, 'neither dr nor dk'), ({'dr': sp, 'dk': sp}, 'both dr and dk')):
            try:
                _state['depth'] += 1
                try:
                    Domain(length=L0, **kw)
                finally:
                    _state['depth'] -= 1
                ctx.violation('constructor-accepts-invalid-arguments', 'Domain(length=%d) with %s did not raise ValueError' % (L0, what))
            except ValueError:
                pass
    got_sp = d.dr if case['ctor'] == 'dr' else d.dk
    if d.length != L0 or not abs(got_sp - sp) <= 4 * EPS * sp:
        ctx.violation('constructor-ignores-arguments', 'Domain constructed with length=%d and %s=%r has length=%r and %s=%r' % (L0, case['ctor'], sp, d.length, case['ctor'], got_sp))
    if case['aseed'] % 3 == 0 and len(d.r) == L0 and len(d.k) == L0 and L0 <= 1024:
        # the Domain has already been USED (array and MatrixArray transforms) before it is re-configured
        m0 = MatrixArray(length=L0, rank=2, data=np.ones((L0, 2, 2)), space=Space.Real, types=['A', 'B'])
        d.MatrixArray_to_fourier(m0)
        d.MatrixArray_to_real(m0)
        d.to_real(d.to_fourier(np.ones(L0)))
        ctx.hook('used_before_reconfiguration')
    kept = []
    for op, val in case['ops']:
        if op == 'copy':
            # the history continues on a copy of the Domain (a forked System, a pickled job, copy.copy of a template): the
            # copy is a reachable Domain like any other, and the object it was copied from must stay what it was
            kept.append((d, val))
            d = copy.deepcopy(d) if val == 'deepcopy' else (pickle.loads(pickle.dumps(d)) if val == 'pickle' else copy.copy(d))
            ctx.hook('history_continues_on_a_copy')
            continue
        newval = ilen(int(val)) if op == 'length' else (val if isinstance(val, int) else float(val))
        if case['aseed'] % 4 == 2:
            # the caller runs with warnings escalated to errors (python -W error, pytest filterwarnings=error): should the library
            # warn inside a setter, the assignment is refused by an exception - and the Domain that survives it must still be ONE
            # consistent grid (wholly the old or wholly the new one), never a mixture
            ctx.hook('setter_under_warnings_as_errors')
            try:
                with warnings.catch_warnings():
                    warnings.simplefilter('error')
                    setattr(d, op, newval)
            except Warning as e:
                ctx.hook('setter_refused_by_escalated_warning')
                for mech, msg in grid_invariant(d, 'after %s=%r was interrupted by %s' % (op, newval, type(e).__name__)) + fresh_equal(d, 'after %s=%r was interrupted by %s' % (op, newval, type(e).__name__)):
                    ctx.violation(mech + '@setter-interrupted-by-warning', msg)
                    return
            continue
        setattr(d, op, newval)
    for n_, (orig, how) in enumerate(kept):
        ctx.hook('original_after_copy_checked')
        for mech, msg in grid_invariant(orig, 'original of a %s copy' % how) + fresh_equal(orig, 'original of a %s copy' % how):
            ctx.violation(mech + '@original-of-copy', msg + ' (after %r on the copy)' % (case['ops'],))
    L = d.length
    if len(d.r) != L or len(d.k) != L:
        return          # already reported by the hook; transforms are meaningless on a broken grid
    tolscale = 64 * EPS * L * max(1.0, math.log2(L))
    # ---- scalar transforms: round trips, linearity, dense reference
    f = make_array(case['arr'], L, rng, d.r)
    g = rng.normal(size=L)
    fk = d.to_fourier(f)
    fk_keep = np.array(fk, copy=True)
    f_keep = np.array(f, copy=True)
    back = d.to_real(fk)
    gk = d.to_fourier(g)                  # a later transform must not disturb earlier results or the caller's inputs
    if not np.array_equal(fk, fk_keep) or not np.array_equal(f, f_keep) or np.shares_memory(fk, gk) or np.shares_memory(fk, f):
        ctx.violation('transform-result-or-input-overwritten', 'to_fourier/to_real changed its input or an earlier result (shared buffer?) (L=%d)' % L)
    # one work buffer refilled in place between two calls: the result belongs to the contents, not to the array object
    ctx.hook('refilled_buffer_probe')
    buf = np.array(g)
    d.to_fourier(buf)
    buf[:] = f
    bufk = np.array(gk)
    d.to_real(bufk)
    bufk[:] = fk_keep
    if not np.array_equal(np.asarray(d.to_fourier(buf)), fk_keep) or not np.array_equal(np.asarray(d.to_real(bufk)), np.asarray(back)):
        ctx.violation('transform-stale-result-for-refilled-buffer', 'transforming one array object twice, refilled in place in between, does not give the transform of its current contents (L=%d)' % L)
    tol = tolscale * max(np.abs(f).max(), 1e-300)
    e1 = np.abs(back - f).max() / tol
    e2 = np.abs(d.to_fourier(d.to_real(f)) - f).max() / tol
    ctx.hook('roundtrip', 2)
    ctx.observe('roundtrip/tol', max(e1, e2))
    if not (e1 <= 1):
        ctx.violation('roundtrip-real', 'to_real(to_fourier(f)) != f: err/tol=%.3g (L=%d dr=%r dk=%r, %s array)' % (e1, L, d.dr, d.dk, case['arr']))
    if not (e2 <= 1):
        ctx.violation('roundtrip-fourier', 'to_fourier(to_real(F)) != F: err/tol=%.3g (L=%d dr=%r dk=%r, %s array)' % (e2, L, d.dr, d.dk, case['arr']))
    a, b = float(rng.uniform(-3, 3)), float(rng.uniform(-3, 3))
    for name, T in (('to_fourier', d.to_fourier), ('to_real', d.to_real)):
        lhs = T(a * f + b * g)
        rhs = a * T(f) + b * T(g)
        scale = max(np.abs(rhs).max(), np.abs(a * T(f)).max(), np.abs(b * T(g)).max(), 1e-300)
        e = np.abs(lhs - rhs).max() / (tolscale * scale)
        ctx.hook('linearity')
        ctx.observe('linearity/tol', e)
        if not (e <= 1):
            ctx.violation('nonlinear-' + name, '%s is not linear: err/tol=%.3g (L=%d)' % (name, e, L))
    if L <= 512:
        # dense reference built from length and dr only (dk = pi/(dr L) by definition)
        Fref = R.to_fourier(f, d.dr)
        Bref = R.to_real(f, d.dr)
        ctx.hook('dense_ref', 2)
        for name, got, ref in (('to_fourier', fk, Fref), ('to_real', d.to_real(f), Bref)):
            e = np.abs(got - ref).max() / (tolscale * 16 * max(np.abs(ref).max(), 1e-300))
            ctx.observe('dense_ref/tol', e)
            if not (e <= 1):
                ctx.violation('dense-ref-' + name, '%s deviates from the defining sine sum: err/tol=%.3g (L=%d dr=%r)' % (name, e, L, d.dr))
    # ---- MatrixArray versions
    if L <= 1024:
        rank = int(case['rank'])
        types = list('ABCDEF')[:rank]
        data = rng.normal(size=(L, rank, rank))
        data = data + np.transpose(data, (0, 2, 1))
        # a transform attempt that fails (array of another length) must leave flag and data alone
        if L > 1:
            bad = MatrixArray(length=L - 1, rank=rank, data=np.ones((L - 1, rank, rank)), space=Space.Real, types=types)
            try:
                d.MatrixArray_to_fourier(bad)
            except Exception:   # noqa
                ctx.hook('failed_transform_attempt')
                if bad.space != Space.Real or not np.array_equal(bad.data, np.ones((L - 1, rank, rank))):
                    ctx.violation('ma-failed-transform-changed-array', 'a transform attempt that raised left the MatrixArray with flag %s / modified data' % bad.space)
        # stacked 2-D input: every row is transformed like a 1-D array
        for nrows in (3, L if L <= 256 else 1, L + 1 if L <= 64 else 2):        # incl. as many rows as grid points (a square stack)
            stack = rng.normal(size=(nrows, L))
            for nm, T in (('to_fourier', d.to_fourier), ('to_real', d.to_real)):
                try:
                    got2 = np.asarray(T(np.array(stack)))
                except Exception:   # noqa - 2-D input is not documented; only a silent wrong answer is judged
                    continue
                ctx.hook('stacked_rows')
                want2 = np.array([T(np.array(row)) for row in stack])
                if got2.shape == want2.shape and not np.allclose(got2, want2, rtol=1e-10, atol=1e-12 * np.abs(want2).max()):
                    ctx.violation('stacked-input-differs-from-rows', '%s of a (%d,%d) array differs from transforming its rows one by one' % (nm, nrows, L))
        spaces3 = ((Space.Real, d.MatrixArray_to_fourier, d.MatrixArray_to_real, d.to_fourier),
                   (Space.Fourier, d.MatrixArray_to_real, d.MatrixArray_to_fourier, d.to_real))
        if case['aseed'] % 5 == 0:
            # an array flagged NonSpatial (e.g. the product of a density array with h) may be sent either way: the DIRECTION asked for decides
            spaces3 = spaces3 + ((Space.NonSpatial, d.MatrixArray_to_fourier, d.MatrixArray_to_real, d.to_fourier),
                                 (Space.NonSpatial, d.MatrixArray_to_real, d.MatrixArray_to_fourier, d.to_real))
        for space, fwd, bwd, one in spaces3:
            layout = ['c', 'fortran', 'transposed_build', 'slice_of_larger'][case['aseed'] % 4]
            if layout == 'c':
                arr = np.array(data)
            elif layout == 'fortran':
                arr = np.array(data, order='F')          # a copy (asfortranarray may alias for rank 1)
            elif layout == 'transposed_build':
                arr = np.array([[data[:, i, j] for j in range(rank)] for i in range(rank)]).T       # caller assembled pair by pair
            else:
                arr = np.concatenate([data, data], axis=2)[:, :, :rank]
            m = MatrixArray(length=L, rank=rank, data=arr, space=space, types=types)
            ctx.count('matrixarray_layout', layout)
            fwd(m)
            ctx.hook('matrixarray')
            other = (Space.Fourier if space == Space.Real else Space.Real) if space != Space.NonSpatial else (Space.Fourier if fwd == d.MatrixArray_to_fourier else Space.Real)
            if m.space != other:
                ctx.violation('ma-flag-not-flipped', 'space flag is %s after transforming from %s' % (m.space, space))
            md = np.asarray(m.data)
            if md.shape != data.shape:
                ctx.violation('ma-shape', 'MatrixArray data changed shape %s -> %s' % (data.shape, md.shape))
                continue
            if not np.array_equal(md, np.transpose(md, (0, 2, 1))):
                ctx.violation('ma-asymmetric', 'MatrixArray transform broke the (a,b)/(b,a) symmetry (rank %d)' % rank)
            worst = 0.0
            for i in range(rank):
                for j in range(rank):
                    ref = one(data[:, i, j])
                    worst = max(worst, np.abs(md[:, i, j] - ref).max() / (tolscale * max(np.abs(ref).max(), 1e-300)))
            ctx.observe('ma_vs_scalar/tol', worst)
            if not (worst <= 1):
                ctx.violation('ma-pair-mismatch', 'MatrixArray transform differs from the array transform of a pair function: err/tol=%.3g (rank %d, L=%d)' % (worst, rank, L))
            try:
                fwd(m)
                ctx.violation('ma-double-transform-accepted', 'transforming a MatrixArray already in %s space did not raise' % (m.space,))
            except ValueError:
                pass
            bwd(m)
            e = np.abs(np.asarray(m.data) - data).max() / (tolscale * np.abs(data).max())
            if m.space != (space if space != Space.NonSpatial else (Space.Real if bwd == d.MatrixArray_to_real else Space.Fourier)) or not (e <= 1):
                ctx.violation('ma-roundtrip', 'MatrixArray round trip err/tol=%.3g flag=%s (rank %d, L=%d)' % (e, m.space, rank, L))
    ctx.nontrivial([case['ctor'], L0, sp, case['ops'], case['arr'], case['rank']])
    ctx.count('ctor', case['ctor'])
    ctx.count('history_len', len(case['ops']))
    ctx.count('length_class', 'pow2' if L & (L - 1) == 0 else ('prime' if L in PRIMES else ('odd' if L % 2 else 'even')))
    ctx.sample({'ctor': case['ctor'], 'L': L0, 'spacing': sp, 'ops': case['ops'], 'array': case['arr'], 'rank': case['rank'],
                'final': {'length': L, 'dr': d.dr, 'dk': d.dk}})
