"""C01 - Converged solutions satisfy the PRISM equation and every pair's closure.

Monitor shape: post-condition on the real solve(), evaluated by an oracle that is independent of the cost
function.  The user-level specification is captured BEFORE createPRISM; after a successful solve the arrays
left on the object (totalCorr, directCorr, omega) and minimize_result are checked against the reference
model built from that specification only (never PRISM.sys, never PRISM.cost):
  O1  H = Omega C (Omega + H) at every wavenumber, H = rho_pair * (dense reference transform of stored h)
  O2  for every pair and grid distance: closure_ref(gamma_in; u_ref/kT, sigma, flag) = stored c, with
      gamma_in = (h - c) - Y/r, Y = the residual the solver reports  (and with gamma_in = x/r, x the reported root)
  O3  Omega_stored = rho_site * omega_ref(k)
A wrapper on the class's cost records the trace of evaluations as witness.  The closure contracts of C09 are
active during every solve as well.
"""
import copy

import numpy as np

import pyPRISM
from pyPRISM.core.PRISM import PRISM
from pyPRISM.core.Space import Space

from .. import core
from .. import refmodel as R
from .. import gen as G
from .. import tutorials as T
from . import c09

PID = 'C01'
RULE = ('cases = random systems of rank 1-3 (atomic / polymer / mixed; per pair any of PY, HNC, MSA, MS with/without hard-core flag and HardSphere, HCLJ, '
        'Exponential, LennardJones (cut/shift/none), WCA; per type SingleSite, Gaussian, FJC, GaussianRing; tabulated cross omegas; domain length 64-256 (512 thorough), dr 0.05-0.25 or the Python integer 1 (integer real-space grid); '
        'packing fraction 1e-3..0.4; kT 0.6-5) solved with krylov(armijo|wolfe), df-sane, anderson, broyden1 (hybr for small grids) from guesses zero / continuation / '
        'perturbed solution / half solution; the Domain is reached through its constructor (dr or dk) or through setter histories, kT through the constructor or by assignment, and 30 % of the objects are solved only after hostile edits of the System they were created from; only converged solves are judged; every fourth case instead compares the real cost function with an independent re-implementation (refmodel.cost_ref) on random symmetric trial vectors; non-trivial = converged solve with >= 3 cost evaluations; distinct = distinct (spec, method, guess) digests')
ASSUMPTIONS = ['contact points (|r - sigma| < 1e-6) are judged by C10 and masked here',
               'MS pairs are compared with the Martynov-Sarkisov relation; a mismatch equal to the shipped expression is the known finding of C09',
               'tolerances: O1 1e-9 relative; O2 1e-11*(1+max|c|)*L/64 (observed <= 1e-14 on the unchanged tree; 1e-9..1e-6 when the arrays belong to another x); O3 1e-7*N*rho']
MINIMA = {'quick': {'oracle.cost_vs_reference': 60, 'solve.converged': 60, 'oracle.prism_equation': 60, 'oracle.closure_pairs': 100, 'oracle.omega_pairs': 100},
          'thorough': {'oracle.cost_vs_reference': 1500, 'solve.converged': 1500, 'oracle.prism_equation': 1500, 'oracle.closure_pairs': 3000, 'oracle.omega_pairs': 3000}}
SHARDS = {'quick': 8, 'thorough': 16}
TIME_BUDGET = {'quick': 35, 'thorough': 330}

_S = {'ctx': None, 'trace': None}
METHODS = [('krylov', {}), ('krylov', {'line_search': 'wolfe'}), ('df-sane', {}), ('anderson', {}), ('broyden1', {}),
           ('krylov', {'fatol': 1e-3}), ('krylov', {'jac_options': {'method': 'gmres', 'inner_maxiter': 40}}), ('anderson', {'fatol': 1e-4, 'jac_options': {'M': 8}})]   # loose tolerances: 'converged' with a sizeable reported residual


def setup(ctx):
    _S['ctx'] = ctx
    c09.attach(ctx)
    if getattr(PRISM, '_pvmon_c01', False):
        return
    orig = PRISM.__dict__['cost']

    def cost(self, x):
        y = orig(self, x)
        tr = _S['trace']
        if tr is not None:
            tr.append((float(np.abs(x).max()), float(np.abs(y).max()) if np.all(np.isfinite(y)) else float('inf'), hash(np.asarray(x).tobytes())))
            _S['ctx'].hook('cost.evaluation')
        return y
    PRISM.cost = cost
    PRISM._pvmon_c01 = True


def cases(ctx):
    rng = ctx.rng('c01')
    n = ctx.budget(320, 8000)
    lengths = [64, 100, 128, 200, 256] + ([384, 512] if ctx.thorough() else [])
    for i, name in enumerate(T.NAMES):
        # the maintainers' own case studies (tutorial notebooks, quick-start), re-enacted step by step
        if ctx.mine(i):
            yield {'kind': 'tutorial', 'name': name}
    for i, sd in enumerate([1463542632, 20, 42, 1234, 98766, 314158, 2718280, 161802, 5772156, 66260700, 1380648, 8314462]):
        # MINPACK's 'lm' first (it flags convergence by several criteria, one of which survives a residual that is not a number)
        if ctx.mine(i + 7):
            yield {'seed': sd, 'guess': 'zero', 'first': 6, 'lengths': lengths, 'cross': True, 'hybr': True, 'via': 'setters', 'kT_via': 'ctor', 'deferred': True, 'intgrid': False}
    for it in range(n):
        if it % 4 == 3:
            yield {'kind': 'cost_ref', 'seed': int(rng.integers(0, 2 ** 31)), 'via': str(rng.choice(G.VIAS)), 'kT_via': str(rng.choice(['ctor', 'assign']))}
            continue
        yield {'seed': int(rng.integers(0, 2 ** 31)), 'guess': str(rng.choice(['zero', 'zero', 'continuation', 'perturbed', 'half'])),
               'first': int(rng.integers(0, len(METHODS))), 'lengths': lengths, 'cross': bool(rng.random() < 0.3), 'hybr': bool(rng.random() < 0.08),
               'via': str(rng.choice(G.VIAS)), 'kT_via': str(rng.choice(['ctor', 'ctor', 'assign'])), 'deferred': bool(rng.random() < 0.3), 'intgrid': bool(rng.random() < 0.12)}


def oracle(ctx, sp, p, res, label):
    """independent check of the arrays left on `p` against the user-level spec `sp`"""
    L, dr, types = sp['L'], sp['dr'], sp['types']
    n = len(types)
    r, k, dk = R.grids(L, dr)
    rho = np.array([sp['rho'][t] for t in types])
    pair, site = R.rho_mats(rho)
    if p.totalCorr.space != Space.Real or p.directCorr.space != Space.Fourier or p.omega.space != Space.Fourier:
        ctx.violation('solve:unexpected-space-after-solve', '%s: spaces after solve are H=%s C=%s W=%s' % (label, p.totalCorr.space.name, p.directCorr.space.name, p.omega.space.name))
        return
    h = np.array(p.totalCorr.data)
    Ck = np.array(p.directCorr.data)
    W = np.array(p.omega.data)
    if h.shape != (L, n, n) or Ck.shape != (L, n, n) or W.shape != (L, n, n):
        ctx.violation('solve:array-shape', '%s: stored arrays have shapes %s %s %s' % (label, h.shape, Ck.shape, W.shape))
        return
    # ---- O1: matrix PRISM equation at every wavenumber
    ctx.hook('oracle.prism_equation')
    Hk = R.to_fourier(h, dr) * pair
    t1 = W @ Ck @ W
    t2 = W @ Ck @ Hk
    e1 = float(np.abs(Hk - t1 - t2).max() / (1 + np.abs(t1).max() + np.abs(t2).max()))
    ctx.observe('O1_prism_equation/1e-9', e1 / 1e-9)
    if not e1 <= 1e-9:
        j = int(np.unravel_index(np.argmax(np.abs(Hk - t1 - t2)), Hk.shape)[0])
        ctx.violation('solve:prism-equation-violated', '%s: H != Omega C (Omega + H) with H = rho_pair*h: rel err %.3g (worst at k=%.4g)' % (label, e1, k[j]))
    # ---- O3: omega wiring and site-density scaling
    for (i, j), (a, b) in G.pairs(types):
        ctx.hook('oracle.omega_pairs')
        os_ = sp['om'][G.pk(a, b)]
        wref = R.w_ref(os_, k) * site[i, j]
        tol = 1e-7 * os_.get('N', 1) * site[i, j] + 1e-13
        e3 = float(np.abs(W[:, i, j] - wref).max())
        ctx.observe('O3_omega/tol', e3 / tol)
        if not e3 <= tol or not np.array_equal(W[:, i, j], W[:, j, i]):
            ctx.violation('solve:omega-not-site-density-times-model', '%s: stored omega[%s,%s] differs from rho_site (%s) times %s on the k grid by %.3g' % (label, a, b, 'rho_a' if a == b else 'rho_a+rho_b', os_['t'], e3))
    # ---- O2: every pair's closure, with the residual the solver reports
    cr = R.to_real(Ck, dr)
    Y = np.asarray(res.fun, dtype=float).reshape(L, n, n)
    X = np.asarray(res.x, dtype=float).reshape(L, n, n)
    gam_out = h - cr
    gin_res = gam_out - Y / r[:, None, None]
    gin_x = X / r[:, None, None]
    resid = float(np.abs(Y).max())
    for (i, j), (a, b) in G.pairs(types):
        ctx.hook('oracle.closure_pairs')
        cs = sp['clo'][G.pk(a, b)]
        ps = sp['pot'][G.pk(a, b)]
        sig = (sp['d'][a] + sp['d'][b]) / 2.0
        su = R.pot_sigma(ps, sig)
        u = R.u_ref(dict(ps, sigma=R.snap(su, r)), r, None) / sp['kT']
        mask = R.contact_mask(r, sig) & R.branch_mask(ps, r, sig)
        scale = 1 + float(np.abs(cr[:, i, j]).max())
        tol = 1e-11 * scale * max(1.0, L / 64.0)
        for which, gin, gin_t in (('reported-residual', gin_res[:, i, j], gin_res[:, j, i]), ('reported-root', gin_x[:, i, j], gin_x[:, j, i])):
            best = None
            for form in (('published', 'original') if cs['t'] == 'MS' else ('published',)):
                # a root is symmetric only to the solver tolerance (x_ab - x_ba ~ 1e-10 after an asymmetric guess); which of the two
                # entries the pair's closure reads is not specified (MatrixArray assumes symmetric matrices), so either is accepted
                for gg in ((gin, gin_t) if i != j else (gin,)):
                    with np.errstate(all='ignore'):
                        cref = R.c_ref(cs, r, gg, u, R.snap(sig, r), ms=form)
                        err = np.abs(cref - cr[:, i, j])
                        err = np.where(np.isnan(err), np.inf, err)[mask]
                    e2 = float(err.max()) if err.size else 0.0
                    best = e2 if best is None else min(best, e2)
            if best <= tol or cs['t'] != 'MS':
                ctx.observe('O2_closure_%s/tol' % which, best / tol)
            if best <= tol:
                continue
            if cs['t'] == 'MS':
                shipped = False
                for gg in ((gin, gin_t) if i != j else (gin,)):
                    with np.errstate(all='ignore'):
                        cship = R.c_ref(cs, r, gg, u, R.snap(sig, r), ms='shipped')
                        es = np.abs(cship - cr[:, i, j])[mask]
                    shipped |= bool(np.all(es <= tol))
                if shipped:
                    ctx.violation('closure:MS-shipped-form', 'converged solution satisfies the shipped MartynovSarkisov expression, not the Martynov-Sarkisov relation')
                    continue
            with np.errstate(all='ignore'):
                cref = R.c_ref(cs, r, gin, u, R.snap(sig, r))
                err = np.where(mask, np.abs(cref - cr[:, i, j]), 0)
                err = np.where(np.isnan(err), np.inf, err)
            m = int(np.argmax(err))
            region = 'core' if (r[m] <= max(sig, su)) else 'outside-core'
            ctx.violation('solve:closure-violated:%s:%s' % (which, region),
                          '%s: pair %s-%s (%s%s, %s, kT=%g): stored c(r) differs from the closure applied to stored h-c (gamma_in from the %s) by %.3g at r=%.4g; reported residual %.3g; cost was evaluated %d times' % (
                              label, a, b, cs['t'], 'hc' if cs.get('hc') else '', ps['t'], sp['kT'], which, best, r[m], resid, len(_S['trace'] or [])))
            break


def inject_zero_potential(sp, seed):
    """every fifth multi-component system gets an 'ideal' pair: a potential that is identically zero on the grid (LennardJones with
    epsilon = 0) closed WITHOUT the hard-core condition - c(r) of that pair is then driven by the other species only"""
    if len(sp['types']) >= 2 and seed % 5 == 0:
        t = sp['types'][-1]
        sp['pot'][G.pk(t, t)] = {'t': 'LJ', 'eps': 0.0}
        sp['clo'][G.pk(t, t)] = {'t': ['HNC', 'MS', 'PY', 'HNC'][seed // 5 % 4], 'hc': False, 'alias': bool(seed // 20 % 2)}


def run_cost_ref(ctx, case):
    """history + executable model: the real cost function against an independent re-implementation, for arbitrary (not only
    converged) arguments.  A solve only ever sees the cost function, so agreement here plus the post-conditions on solved
    objects pins the whole pipeline."""
    rng = np.random.default_rng(case['seed'])
    sp = G.gen_spec(rng, lengths=[64, 100, 128], eta_range=((1e-3, 0.4) if rng.random() < 0.7 else (1e-13, 1e-3)))
    if rng.random() < 0.15:
        sp = G.integer_grid(sp)
    if len(sp['types']) > 1 and rng.random() < 0.4:
        G.add_cross_omegas(sp, rng)
    inject_zero_potential(sp, case['seed'])
    r = R.grids(sp['L'], sp['dr'])[0]
    for (i, j), (a, b) in G.pairs(sp['types']):
        ps = sp['pot'][G.pk(a, b)]
        sig = (sp['d'][a] + sp['d'][b]) / 2.0
        cuts = [x for x in R.special_points(ps, sig)[1:]]
        if any(np.any(np.abs(r - x) < R.CONTACT_TOL) for x in cuts):
            raise core.Skip('a cut-off coincides with a grid point (side decided by last-digit noise of the grid)')
    sp['via'], sp['kT_via'] = (case['via'] if not isinstance(sp['dr'], int) else 'dr'), case['kT_via']
    with np.errstate(all='ignore'):
        p = G.build(sp).createPRISM()
    n = sp['L'] * len(sp['types']) ** 2
    done = 0
    for trial in range(4):
        x = rng.normal(size=n) * float(10 ** rng.uniform(-2, 0.3))
        X = x.reshape(sp['L'], len(sp['types']), len(sp['types']))
        x = (0.5 * (X + np.transpose(X, (0, 2, 1)))).reshape(-1)          # the solver only ever produces symmetric iterates
        with np.errstate(all='ignore'):
            try:
                y = np.array(p.cost(np.array(x)), dtype=float)
            except np.linalg.LinAlgError:
                continue
            yref, cond = R.cost_ref(sp, x, G.pairs)
            if any(v['t'] == 'MS' for v in sp['clo'].values()) and y.shape == yref.shape and np.all(np.isfinite(yref)):
                # the shipped MS expression is a known finding of C09; either literature form is acceptable here as well
                for form in ('published', 'original'):
                    alt, c2 = R.cost_ref(sp, x, G.pairs, ms=form)
                    if np.all(np.isfinite(alt)) and np.abs(y - alt).max() < np.abs(y - yref).max():
                        yref, cond = alt, c2
        if not np.all(np.isfinite(yref)) or cond > 1e6:
            ctx.count('cost_ref_skipped', 'ill-conditioned or overflowing trial vector')
            continue
        ctx.hook('oracle.cost_vs_reference')
        done += 1
        scale = 1 + float(np.abs(yref).max())
        e = float(np.abs(y - yref).max()) / scale
        tol = 1e-9 * max(1.0, cond)
        ctx.observe('cost_vs_reference/tol', e / tol)
        if y.shape != yref.shape or not e <= tol:
            Y, Yr = y.reshape(sp['L'], -1), yref.reshape(sp['L'], -1)
            jj = int(np.argmax(np.abs(Y - Yr).max(axis=0)))
            nt = len(sp['types'])
            ctx.violation('solve:cost-function-differs-from-reference:%s' % ('diagonal-pair' if jj // nt == jj % nt else 'cross-pair'),
                          '%s domain-via-%s kT-via-%s: PRISM.cost(x) differs from the reference self-consistency map by %.3g (relative; cond(I-Omega C)=%.3g), worst for pair %s-%s' % (
                              G.spec_signature(sp), sp['via'], sp['kT_via'], e, cond, sp['types'][jj // nt], sp['types'][jj % nt]))
            return
    if done:
        ctx.nontrivial(['cost_ref', case['seed']])
    ctx.count('cost_ref_rank', len(sp['types']))


def run_tutorial(ctx, case):
    def on_step(sp, s, p, res, label):
        ctx.hook('solve.converged')
        ctx.hook('tutorial.step_judged')
        oracle(ctx, sp, p, res, label)
        ctx.count('tutorial', case['name'])
        ctx.count('category', '%s/tutorial' % G.spec_signature(sp))
        ctx.observe('tutorial_reported_residual', float(np.abs(res.fun).max()))

    def before(sp, s, p):
        _S['trace'] = []
    nok, n = T.run(case['name'], on_step, quick=not ctx.thorough(), before_solve=before)
    _S['trace'] = None
    ctx.count('tutorial_steps', '%s: %d of %d solved' % (case['name'], nok, n))
    if nok:
        ctx.nontrivial(['tutorial', case['name']])


def run_case(ctx, case):
    if case.get('kind') == 'cost_ref':
        return run_cost_ref(ctx, case)
    if case.get('kind') == 'tutorial':
        return run_tutorial(ctx, case)
    rng = np.random.default_rng(case['seed'])
    sp = G.gen_spec(rng, lengths=[64] if case['hybr'] else case['lengths'])
    if case.get('intgrid'):
        sp = G.integer_grid(sp)
    if case['cross'] and len(sp['types']) > 1:
        G.add_cross_omegas(sp, rng)
    n = len(sp['types'])
    inject_zero_potential(sp, case['seed'])
    sp['via'] = case.get('via', 'dr') if not case.get('intgrid') else 'dr'
    sp['kT_via'] = case.get('kT_via', 'ctor')
    s = G.build(sp)                      # the user-level spec `sp` is complete before the real objects exist
    with np.errstate(all='ignore'):
        p = s.createPRISM()
    if G.spec_hash(sp) % 3 == 1 or G.style(sp) == 'replace':
        # the object that is solved is a copy.deepcopy of the one createPRISM returned (a template object copied per state point,
        # a job handed to a worker): a copy of a PRISM object is a PRISM object for the same user-level specification
        p = copy.deepcopy(p)
        ctx.hook('solve.on_a_deepcopy_of_the_object')
    if case.get('deferred'):
        # the object is solved later, after the user has moved on with the System (a sweep that creates first and solves afterwards)
        G.hostile_edits(s, rng)
        ctx.hook('solve.deferred_after_system_edits')
    order = METHODS[case['first']:] + METHODS[:case['first']]
    if case['hybr']:
        order = [('hybr' if case['seed'] % 2 else 'lm', {})] + order          # MINPACK methods (dense Jacobian): small grids only
    res = None
    used = None
    guess = None
    if case['guess'] == 'continuation':
        # solve a dilute version first and continue from its solution
        sp0 = dict(sp, rho={t: v * 0.25 for t, v in sp['rho'].items()})
        p0 = G.build(sp0).createPRISM()
        r0 = G.solve(p0, 'krylov', {'line_search': 'wolfe', 'maxiter': 60}, max_evals=800)
        if r0 is not None and r0.success:
            guess = np.array(r0.x)
    for meth, o in order[:3]:
        _S['trace'] = []
        opt = {'maxiter': 60 if meth == 'krylov' else (400 if meth != 'hybr' else 50)}
        opt.update(o)
        if meth in ('hybr', 'lm'):
            opt = {}
        if case['guess'] == 'zero' and case['seed'] % 3 == 0 and guess is None:
            # the all-zero first guess written as a 3-D array (length, rank, rank), as tutorial NB6 does
            guess = np.zeros((sp['L'], n, n))
            ctx.hook('solve.guess_given_as_3d_array')
        r1 = G.solve(p, meth, opt, guess=None if guess is None else np.array(guess), max_evals=1500)
        ctx.count('solve_outcome', '%s%s/%s' % (meth, 'w' if o else '', 'converged' if (r1 is not None and r1.success) else 'failed'))
        if r1 is not None and r1.success:
            res, used = r1, (meth, o)
            break
    if res is None:
        raise core.Skip('no method converged')
    if case['guess'] in ('perturbed', 'half'):
        # second solve on the same object from a guess derived from the first root ("all initial guesses")
        g2 = np.array(res.x) * (0.5 if case['guess'] == 'half' else 1.0) + (rng.normal(size=len(res.x)) * 1e-3 if case['guess'] == 'perturbed' else 0.0)
        _S['trace'] = []
        opt = {'maxiter': 60 if used[0] == 'krylov' else 400}
        opt.update(used[1])
        if used[0] in ('hybr', 'lm'):
            opt = {}
        r2 = G.solve(p, used[0], opt, guess=g2, max_evals=1500)
        if r2 is None or not r2.success:
            raise core.Skip('second solve from derived guess did not converge')
        res = r2
    ctx.hook('solve.converged')
    label = '%s/%s%s/guess=%s/domain-via-%s/kT-via-%s%s' % (G.spec_signature(sp), used[0], '(wolfe)' if used[1] else '', case['guess'], sp['via'], sp['kT_via'], '/deferred' if case.get('deferred') else '')
    oracle(ctx, sp, p, res, label)
    if case['seed'] % 4 == 1 and not isinstance(sp['dr'], int):
        # the work goes on with the System the solved object carries (PRISM.sys): the user gives one potential an explicit contact distance
        # there (or changes a diameter) and solves again, starting from the previous root
        sp2 = __import__('copy').deepcopy(sp)
        s2 = p.sys
        a, b = sp['types'][0], sp['types'][-1]
        key = G.pk(a, b)
        la, lb = G.lab(sp, a), G.lab(sp, b)
        if R.hard_core_family(sp2['pot'][key]) and case['seed'] % 8 == 1:
            newsig = float(round(R.pot_sigma(sp2['pot'][key], G.sigma_of(sp, a, b)) + sp['dr'], 10))
            s2.potential[la, lb].sigma = newsig
            sp2['pot'][key]['sigma'] = newsig
            what = 'potential[%s].sigma=%r set on PRISM.sys' % (key, newsig)
        else:
            newd = float(round(sp['d'][a] + sp['dr'], 10))
            s2.diameter[la] = newd
            sp2['d'][a] = newd
            what = 'diameter[%s]=%r set on PRISM.sys' % (a, newd)
        with np.errstate(all='ignore'):
            p2 = s2.createPRISM()
        _S['trace'] = []
        opt = {'maxiter': 60 if used[0] == 'krylov' else 400}
        opt.update(used[1])
        if used[0] in ('hybr', 'lm'):
            opt = {}
        r2 = G.solve(p2, used[0], opt, guess=np.array(res.x), max_evals=1500)
        ctx.count('continued_on_prism_sys', 'converged' if (r2 is not None and r2.success) else 'not converged')
        if r2 is not None and r2.success:
            ctx.hook('solve.continued_on_prism_sys')
            oracle(ctx, sp2, p2, r2, label + '/continued on PRISM.sys after ' + what)
    if len(_S['trace']) >= 3:
        ctx.nontrivial([case['seed'], used[0], case['guess']])
    _S['trace'] = None
    ctx.count('category', '%s/%s%s' % (G.spec_signature(sp), used[0], 'w' if used[1] else ''))
    ctx.count('method', '%s%s' % (used[0], ('(%s)' % ','.join(sorted(used[1]))) if used[1] else ''))
    ctx.count('rank', n)
    ctx.count('guess', case['guess'])
    ctx.count('domain_via', sp['via'])
    ctx.count('kT_via', sp['kT_via'])
    ctx.count('deferred_solve', bool(case.get('deferred')))
    ctx.count('integer_grid', isinstance(sp['dr'], int))
    ctx.count('integer_kT', isinstance(sp['kT'], int))
    for v in sp['clo'].values():
        ctx.count('closure', v['t'] + ('hc' if v.get('hc') else ''))
    for v in sp['pot'].values():
        ctx.count('potential', v['t'])
    for v in sp['om'].values():
        ctx.count('omega', v['t'])
    ctx.sample({'spec': {k: sp[k] for k in ('types', 'dr', 'L', 'd', 'rho', 'kT', 'pot', 'clo')}, 'omega': {k: v['t'] for k, v in sp['om'].items()},
                'method': used[0], 'options': used[1], 'guess': case['guess'], 'residual': float(np.abs(res.fun).max())}, limit=3)
