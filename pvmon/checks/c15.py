"""C15 - Density and Diameter keep derived quantities consistent under any history.

Monitor shapes: (1) class invariants attached with icontract to the real Density and Diameter classes -
evaluated by icontract after every public method call, i.e. after every assignment of every history
(and of any other workload that touches these classes); (2) history + executable model: the
assignments are mirrored into a dict (last write wins) and after every step every derived entry is
compared with the value recomputed from the model.
"""
import copy
import math
import pickle

import numpy as np

import icontract

import pyPRISM

from .. import suite as SUITE
from pyPRISM.core.Density import Density
from pyPRISM.core.Diameter import Diameter

PID = 'C15'
RULE = ('cases = assignment histories (<= 10 quick / <= 20 thorough steps) on one Density and one Diameter object over 1-4 types: '
        'single-type and list assignments in arbitrary order with re-assignment (sweeps), values log-uniform 1e-4..1e2 plus near-equal re-assignments (relative change 1e-12..1e-6) and dilute values 1e-10..1e-8; type labels incl. substring-related strings and integers; '
        'non-trivial = history re-assigns at least one already assigned type; distinct = distinct (types, step list) digests')
ASSUMPTIONS = ['entries involving an unassigned type must still hold their initial value',
               'relative tolerance 1e-13 (the derived values are single products/sums)']
MINIMA = {'quick': {'density.step': 2000, 'diameter.step': 2000, 'icontract.density_invariant': 2000, 'icontract.diameter_invariant': 2000},
          'thorough': {'density.step': 100000, 'diameter.step': 100000, 'icontract.density_invariant': 100000, 'icontract.diameter_invariant': 100000}}
SHARDS = {'quick': 4, 'thorough': 16}
TIME_BUDGET = {'quick': 40, 'thorough': 240}

TYPESETS = [['A'], ['A', 'B'], ['A', 'B', 'C'], ['A', 'B', 'C', 'D'], ['polymer', 'solvent'], ['C', 'A', 'B'], ['B', 'A'],
            ['C', 'CH2', 'CH3'], ['CH2', 'C'], ['A2', 'A', 'A10'], ['poly', 'polymer'], [1, 2, 3], ['A', 1]]
RTOL = 1e-13
_S = {'ctx': None}


class InvariantBroken(Exception):
    pass


def close(a, b):
    if a is None or b is None:
        return False
    return abs(a - b) <= RTOL * max(abs(a), abs(b))


def density_self_consistent(self):
    """derived entries agree with the object's own per-type table (no model needed)"""
    ctx = _S['ctx']
    total_first = getattr(self, 'total', None)       # read BEFORE pair / site are touched (even by hasattr): no reading order may matter
    if ctx is None or not hasattr(self, 'site'):
        return True
    ctx.hook('icontract.density_invariant')
    tot = 0.0
    for a in self.types:
        ra = self.density[a]
        if ra is None:
            continue
        tot += ra
        for b in self.types:
            rb = self.density[b]
            if rb is None:
                continue
            if not close(self.pair[a, b][0], ra * rb) or not close(self.pair[b, a][0], ra * rb):
                ctx.violation('density:pair-stale', 'pair density (%s,%s)=%r but rho_a*rho_b=%r' % (a, b, self.pair[a, b][0], ra * rb))
            want = ra if a == b else ra + rb
            if not close(self.site[a, b][0], want) or not close(self.site[b, a][0], want):
                ctx.violation('density:site-stale', 'site density (%s,%s)=%r but expected %r' % (a, b, self.site[a, b][0], want))
    if hasattr(self, 'total') and any(self.density[t] is not None for t in self.types) and not (close(self.total, tot) and close(total_first, tot)):
        ctx.violation('density:total-stale', 'total=%r (%r when read before pair/site) but sum of assigned densities=%r' % (self.total, total_first, tot))
    return True


def diameter_self_consistent(self):
    ctx = _S['ctx']
    if ctx is None or not hasattr(self, 'sigma'):
        return True
    ctx.hook('icontract.diameter_invariant')
    for a in self.types:
        da = self.diameter[a]
        if da is None:
            continue
        if self.volume[a] is None or not close(self.volume[a], math.pi * da ** 3 / 6.0):
            ctx.violation('diameter:volume-stale', 'volume[%s]=%r but pi d^3/6=%r' % (a, self.volume[a], math.pi * da ** 3 / 6.0))
        for b in self.types:
            db = self.diameter[b]
            if db is None:
                continue
            s = self.sigma[a, b]
            if s is None or not close(s, (da + db) / 2.0):
                ctx.violation('diameter:sigma-stale', 'sigma(%s,%s)=%r but (d_a+d_b)/2=%r' % (a, b, s, (da + db) / 2.0))
    return True


def setup(ctx):
    _S['ctx'] = ctx
    if not getattr(Density, '_pvmon_inv', False):
        icontract.invariant(density_self_consistent, error=InvariantBroken)(Density)
        icontract.invariant(diameter_self_consistent, error=InvariantBroken)(Diameter)
        Density._pvmon_inv = True


def cases(ctx):
    if ctx.mine(1):
        yield {'kind': 'repo_suite'}          # the repository's own tests, run in-process under this check's monitors
    rng = ctx.rng('c15')
    n = ctx.budget(3000, 100000)
    maxsteps = 20 if ctx.thorough() else 10
    for it in range(n):
        yield {'types': TYPESETS[int(rng.integers(0, len(TYPESETS)))], 'seed': int(rng.integers(0, 2 ** 31)), 'nsteps': int(rng.integers(1, maxsteps + 1))}


def gen_steps(rng, types, nsteps):
    n = len(types)
    steps = []
    for _ in range(nsteps):
        val = float(10 ** rng.uniform(-4, 2))
        if rng.random() < 0.3:
            val = float(rng.choice([0.1, 0.5, 1.0, 1.2, 0.05]))
        elif steps and rng.random() < 0.25:
            # a fine sweep / bisection step: almost, but not exactly, the previous value
            val = float(steps[-1][1] * (1 + float(rng.choice([1e-6, -1e-7, 1e-9, 3e-12]))))
        elif rng.random() < 0.1:
            val = float(10 ** rng.uniform(-10, -8))           # dilute species
        if rng.random() < 0.6:
            steps.append([[int(rng.integers(0, n))], val, 'single'])
        else:
            ks = [int(x) for x in rng.permutation(n)[:int(rng.integers(1, n + 1))]]
            if rng.random() < 0.2:
                ks = ks + [ks[0]] if rng.random() < 0.5 else [ks[0]] + ks          # a label repeated in the key list
            steps.append([ks, val, str(rng.choice(['list', 'tuple', 'list', 'tuple', 'generator', 'iterator', 'map', 'dict_keys']))])
        # the object the history continues on may be a copy of the one it started on (a forked System, a pickled job)
        steps[-1].append(str(rng.choice(['deepcopy', 'pickle'])) if rng.random() < 0.08 else '')
    return steps


def make_key(keys, form):
    """every key form Table.listify documents: a single label, or any iterable of labels (one-shot iterables included)"""
    if form == 'single':
        return keys[0]
    if form == 'tuple':
        return tuple(keys)
    if form == 'generator':
        return (t for t in keys)
    if form == 'iterator':
        return iter(list(keys))
    if form == 'map':
        return map(lambda t: t, keys)
    if form == 'dict_keys':
        return dict.fromkeys(keys).keys()
    return list(keys)


def fork(obj, how):
    return copy.deepcopy(obj) if how == 'deepcopy' else pickle.loads(pickle.dumps(obj))


def expect_raise(ctx, obj, model, types, name, where):
    unset = any(t not in model for t in types)
    try:
        obj.check()
        raised = False
    except ValueError:
        raised = True
    if raised != unset:
        ctx.violation('%s:check-wrong' % name, '%s: check() %s but %s type is unassigned' % (where, 'raised' if raised else 'did not raise', 'some' if unset else 'no'))


class PackingFractionDensity(Density):
    """a user's subclass: densities are handed over as packing fractions of unit spheres and converted on assignment"""
    def __setitem__(self, types1, value):
        Density.__setitem__(self, types1, value * 6.0 / math.pi)


def run_subclass(ctx, types, rng):
    rho = PackingFractionDensity(list(types))
    model = {}
    for step in range(4):
        ks = [types[int(i)] for i in rng.permutation(len(types))[:int(rng.integers(1, len(types) + 1))]]
        eta = float(rng.uniform(0.01, 0.4))
        rho[ks[0] if (len(ks) == 1 and step % 2) else list(ks)] = eta
        ctx.hook('density.subclass_step')
        for t in ks:
            model[t] = eta * 6.0 / math.pi
        for a in types:
            got = rho[a]
            if (a in model) != (got is not None) or (a in model and not close(got, model[a])):
                ctx.violation('density:value', 'user subclass converting its input: after [%r]=%r density[%s] reads %r, expected %r (conversion applied %s)' % (
                    ks, eta, a, got, model.get(a), 'twice?' if got is not None and a in model and close(got, model[a] * 6.0 / math.pi) else 'wrongly'))
                return


def run_case(ctx, case):
    if case.get('kind') == 'repo_suite':
        return SUITE.run(ctx, pattern='[!C]*_test.py')       # everything but the CalcPRISM tests (17 s of solving that adds no events here)
    rng = np.random.default_rng(case['seed'])
    types = list(case['types'])
    if case['seed'] % 10 == 0:
        run_subclass(ctx, types, np.random.default_rng(case['seed'] + 1))
    steps = gen_steps(rng, types, int(case['nsteps']))
    rho = Density(list(types))
    dia = Diameter(list(types))
    with np.errstate(all='ignore'):
        init_pair = np.array(rho.pair.data, copy=True)
        init_site = np.array(rho.site.data, copy=True)
    mr, md = {}, {}
    reassign = False
    forked = []
    for k, (ks, val, form, forkhow) in enumerate(steps):
        if forkhow:
            # keep the originals: they must stay as they were at the fork, whatever happens to the copies
            forked.append((rho, dia, dict(mr), dict(md), k))
            rho, dia = fork(rho, forkhow), fork(dia, forkhow)
            ctx.hook('history_continues_on_a_copy')
        if k % 4 == 3:
            # a typo in a sweep: an assignment to an unknown label must not disturb anything derived for the declared types
            for obj, name, model in ((rho, 'density', mr), (dia, 'diameter', md)):
                ctx.hook('%s.refused_assignment' % name)
                if k % 8 == 7:
                    # the typo sits in a LIST key behind a valid label: whether the valid part takes effect or not is not specified, but
                    # whatever the object then reports for that type is what every derived quantity must agree with
                    t0 = types[int(ks[0]) % len(types)]
                    try:
                        obj[[t0, 'no_such_type_%d' % k]] = val
                    except (ValueError, KeyError):
                        pass
                    got0 = obj[t0]
                    if got0 is not None and got0 == val:
                        model[t0] = val
                    elif (t0 in model) != (got0 is not None) or (t0 in model and got0 != model[t0]):
                        ctx.violation('%s:value' % name, 'step %d: after the refused assignment [[%r, unknown]]=%r, %s[%r] reads %r (neither the old value %r nor the new one)' % (k, t0, val, name, t0, got0, model.get(t0)))
                    continue
                try:
                    obj['no_such_type_%d' % k] = val        # may or may not be refused; either way the declared types must stay consistent
                except (ValueError, KeyError):
                    pass
        keys = [types[i] for i in ks]
        where = 'step %d: [%s of %r]=%r%s' % (k, form, keys, val, (' on a %s copy' % forkhow) if forkhow else '')
        reassign |= any(t in mr for t in keys)
        # ---------------- density
        rho[make_key(keys, form)] = val
        ctx.hook('density.step')
        for t in keys:
            mr[t] = val
        tot = 0.0
        for i, a in enumerate(types):
            got = rho[a]
            if (a in mr) != (got is not None) or (a in mr and got != mr[a]):
                ctx.violation('density:value', '%s: density[%s] reads %r, last assigned %r' % (where, a, got, mr.get(a)))
            if a in mr:
                tot += mr[a]
            for j, b in enumerate(types):
                for (x, y) in ((a, b), (b, a)):
                    gp, gs = rho.pair[x, y][0], rho.site[x, y][0]
                    if a in mr and b in mr:
                        ep = mr[a] * mr[b]
                        es = mr[a] if a == b else mr[a] + mr[b]
                        if not close(gp, ep):
                            ctx.violation('density:pair-stale', '%s: pair(%s,%s)=%r expected %r' % (where, x, y, gp, ep))
                        if not close(gs, es):
                            ctx.violation('density:site-stale', '%s: site(%s,%s)=%r expected %r' % (where, x, y, gs, es))
                    else:
                        if gp != init_pair[0, i, j] or gs != init_site[0, i, j]:
                            ctx.violation('density:unassigned-entry-touched', '%s: entry (%s,%s) involves an unassigned type but changed to pair=%r site=%r' % (where, x, y, gp, gs))
        if not close(rho.total, tot):
            ctx.violation('density:total-stale', '%s: total=%r expected %r' % (where, rho.total, tot))
        expect_raise(ctx, rho, mr, types, 'density', where)
        # ---------------- diameter
        dia[make_key(keys, form)] = val
        ctx.hook('diameter.step')
        for t in keys:
            md[t] = val
        for a in types:
            got = dia[a]
            if (a in md) != (got is not None) or (a in md and got != md[a]):
                ctx.violation('diameter:value', '%s: diameter[%s] reads %r, last assigned %r' % (where, a, got, md.get(a)))
            gv = dia.volume[a]
            if a in md:
                if gv is None or not close(gv, math.pi * md[a] ** 3 / 6.0):
                    ctx.violation('diameter:volume-stale', '%s: volume[%s]=%r expected %r' % (where, a, gv, math.pi * md[a] ** 3 / 6.0))
            elif gv is not None:
                ctx.violation('diameter:unassigned-entry-touched', '%s: volume[%s]=%r for an unassigned type' % (where, a, gv))
            for b in types:
                for (x, y) in ((a, b), (b, a)):
                    gs = dia.sigma[x, y]
                    g2 = dia[x, y]
                    if a in md and b in md:
                        es = (md[a] + md[b]) / 2.0
                        if gs is None or not close(gs, es) or g2 is None or not close(g2, es):
                            ctx.violation('diameter:sigma-stale', '%s: sigma(%s,%s)=%r / diameter[%s,%s]=%r expected %r' % (where, x, y, gs, x, y, g2, es))
                    elif gs is not None:
                        ctx.violation('diameter:unassigned-entry-touched', '%s: sigma(%s,%s)=%r involves an unassigned type' % (where, x, y, gs))
        expect_raise(ctx, dia, md, types, 'diameter', where)
    for orho, odia, omr, omd, k in forked:
        ctx.hook('original_after_fork_checked')
        for a in types:
            if orho[a] != omr.get(a) or odia[a] != omd.get(a):
                ctx.violation('density:original-changed-by-copy' if orho[a] != omr.get(a) else 'diameter:original-changed-by-copy',
                              'the object copied at step %d reads [%s]=%r / %r afterwards, it held %r / %r when it was copied' % (k, a, orho[a], odia[a], omr.get(a), omd.get(a)))
            for b in types:
                if a in omr and b in omr and not close(orho.pair[a, b][0], omr[a] * omr[b]):
                    ctx.violation('density:original-changed-by-copy', 'pair density (%s,%s) of the object copied at step %d changed to %r' % (a, b, k, orho.pair[a, b][0]))
                if a in omd and b in omd and not close(odia.sigma[a, b], (omd[a] + omd[b]) / 2.0):
                    ctx.violation('diameter:original-changed-by-copy', 'sigma(%s,%s) of the object copied at step %d changed to %r' % (a, b, k, odia.sigma[a, b]))
    if reassign:
        ctx.nontrivial([types, steps])
    ctx.count('ntypes', len(types))
    ctx.sample({'types': types, 'steps': steps}, limit=3)
