"""C18 - Debyer omega equals the direct Debye sum for any thread count.

The extension is built from the tree's current Debyer.pyx (pvmon/native.py: two-token numpy shim on a scratch copy).
Monitors:
 * invariant at a hook: Debyer._chunk(n, c) must partition [0, n) into disjoint consecutive ranges (the structural
   reason why threads never share an accumulator row) - enumerated for all 1 <= n <= 200, 1 <= c <= 64;
 * reference model: calculate() vs a float64 numpy Debye sum (minimum image, intramolecular pairs) on random trajectories;
 * schedule diversity: the same input with nthreads in {1..16, 17, 40, n-1, n, n+1} and OpenMP team sizes 1, 2, 4, 16
   (omp_set_num_threads through libgomp), repeated runs under 16 threads must be bit-identical, site permutation invariant;
 * sanitizers: the same workload in a subprocess on an ASan+UBSan build (boundscheck is off in the .pyx, so a chunk
   table that overshoots is a heap over-read).  ThreadSanitizer is not used (libgomp barriers are not intercepted:
   every report on the unchanged code was a false positive), races are approached behaviourally.
"""
import ctypes
import fcntl
import json
import os
import subprocess
import sys

import numpy as np

import pyPRISM

from .. import core
from .. import native

PID = 'C18'
RULE = ('chunk cases = all (n, c) with 1 <= n <= 200, 1 <= c <= 64; trajectory cases = (frames 1-4, sites 1-120 per type, 1-8 molecules incl. all-one-molecule and '
        'all-singletons, orthorhombic boxes (edges 6-20, unit box, edges of order one, one short edge, 20-50) with coordinates wrapped into the box, self and non-self, Domain dk 0.05-0.3 x 16-64 bins) x nthreads in '
        '{1..16, 17, 40, n-1, n, n+1} x OpenMP team size in {1, 2, 4, 16}; a share of the cases runs on the ASan+UBSan build in a subprocess; '
        'non-trivial = trajectory with >= 1 intramolecular pair compared under >= 4 distinct (nthreads, team) schedules; distinct = distinct case digests')
ASSUMPTIONS = ['build shim np.int -> np.int64, np.int_t -> np.int64_t on a scratch copy (the shipped .pyx does not cythonize against the pinned numpy)',
               'tolerance 1e-4*max(1,|omega|): float32 coordinates and accumulation; excluded inputs: coincident sites, coordinates more than one box length apart',
               'gcc libgomp/libasan/libubsan are trusted']
MINIMA = {'quick': {'chunk.partition_checked': 12000, 'debye.compared': 3, 'debye.schedules': 40, 'asan.cases': 4},          # an unloaded run gives 120 / 1400 / 40; a machine shared with other jobs far less
          'thorough': {'chunk.partition_checked': 12800, 'debye.compared': 80, 'debye.schedules': 4000, 'asan.cases': 60}}
SHARDS = {'quick': 4, 'thorough': 16}
TIME_BUDGET = {'quick': 75, 'thorough': 300}

_S = {'mod': None, 'omp': None, 'asan_dir': None}


def locked_build(kind):
    lock = os.path.join(core.OUT, '.work', 'native.lock')
    os.makedirs(os.path.dirname(lock), exist_ok=True)
    with open(lock, 'w') as f:
        fcntl.flock(f, fcntl.LOCK_EX)
        try:
            return native.build(kind)
        finally:
            fcntl.flock(f, fcntl.LOCK_UN)


def setup(ctx):
    try:
        d = locked_build('plain')
    except native.BuildError as e:
        print('INCONCLUSIVE property=C18 reason=extension does not build: %s' % str(e)[-400:])
        raise core.HarnessError('Debyer build failed')
    sys.path.insert(0, d)
    import Debyer
    _S['mod'] = Debyer
    try:
        _S['omp'] = ctypes.CDLL('libgomp.so.1')
    except OSError:
        _S['omp'] = None


def set_team(n):
    if _S['omp'] is not None:
        _S['omp'].omp_set_num_threads(int(n))


def cases(ctx):
    rng = ctx.rng('c18')
    # systematic chunk tables
    idx = 0
    for n in range(1, 201):
        idx += 1
        if ctx.mine(idx):
            yield {'kind': 'chunk', 'n': n}
    # sanitizer runs first (they must not be starved by the time budget), then the schedule-diversity workload
    n = ctx.budget(4, 48)
    for it in range(n):
        yield {'kind': 'asan', 'seed': int(rng.integers(0, 2 ** 31)), 'ncases': 6}
    n = ctx.budget(64, 1600)
    for it in range(n):
        yield {'kind': 'traj', 'seed': int(rng.integers(0, 2 ** 31)), 'self': bool(rng.random() < 0.6)}


def reference(p1, p2, m1, m2, box, selfo, k):
    out = np.zeros_like(k)
    for f in range(p1.shape[0]):
        d = p1[f][:, None, :] - p2[f][None, :, :]
        per = np.isfinite(box[f]) & (box[f] > 0)           # an edge of 0 (2-D trajectory) or inf (open direction) is not periodic
        with np.errstate(all='ignore'):
            d = np.where(per, d - np.where(per, box[f], 1.0) * np.round(d / np.where(per, box[f], 1.0)), d)
        r = np.sqrt((d ** 2).sum(-1))
        same = (m1[:, None] == m2[None, :])
        if selfo:
            same &= ~np.eye(len(m1), dtype=bool)
        rr = r[same]
        s = (np.sin(k[:, None] * rr[None, :]) / (k[:, None] * rr[None, :])).sum(1) if rr.size else np.zeros_like(k)
        n = len(m1) if selfo else len(m1) + len(m2)
        out += (1.0 if selfo else 0.0) + s / n
    return out / p1.shape[0]


def gen_traj(rng, selfo):
    F = int(rng.integers(1, 5))
    N1 = int(rng.choice([1, 2, 3, 5, 8, 13, 16, 17, 31, 32, 33, 64, 100, 120, int(rng.integers(1, 121))]))
    N2 = N1 if selfo else int(rng.integers(1, 121))
    nm = int(rng.choice([1, 2, 3, 8, 10 ** 6]))          # 10**6 -> all singletons
    mode = str(rng.choice(['std', 'std', 'unit', 'small', 'slab', 'large']))
    if mode == 'unit':
        base = np.ones((1, 3))                                   # reduced / fractional coordinates
    elif mode == 'small':
        base = rng.uniform(0.7, 2.5, size=(1, 3))                # box edges of order one length unit
    elif mode == 'slab':
        base = rng.uniform(6, 20, size=(1, 3))
        base[0, int(rng.integers(0, 3))] = float(rng.uniform(0.8, 3.0))   # one short edge
    elif mode == 'large':
        base = rng.uniform(20, 50, size=(1, 3))
    else:
        base = rng.uniform(6, 20, size=(1, 3))
    box = base.repeat(F, axis=0) * rng.uniform(0.95, 1.05, size=(F, 1))
    degenerate = None
    if rng.random() < 0.12:
        # a planar trajectory in the HOOMD/GSD convention (box edge 0, coordinate 0) or an open direction (edge inf)
        ax = int(rng.integers(0, 3))
        degenerate = (ax, str(rng.choice(['planar', 'open'])))

    def pos(N):
        while True:
            p = rng.uniform(0, 1, size=(F, N, 3)) * box[:, None, :]
            if degenerate is not None and degenerate[1] == 'planar':
                p[:, :, degenerate[0]] = 0.0
            return p
    p1 = pos(N1)
    m1 = (rng.integers(0, nm, size=N1) if nm < 10 ** 6 else np.arange(N1)).astype(np.int64)
    if selfo:
        p2, m2 = p1, m1
    else:
        p2 = pos(N2)
        m2 = (rng.integers(0, nm, size=N2) if nm < 10 ** 6 else np.arange(N2) % max(1, N1)).astype(np.int64)
    if degenerate is not None:
        box = np.array(box)
        box[:, degenerate[0]] = 0.0 if degenerate[1] == 'planar' else np.inf
    dom = pyPRISM.Domain(length=int(rng.choice([16, 32, 64])), dk=float(rng.choice([0.05, 0.1, 0.3])))
    return dom, p1, p2, m1, m2, box


def check_chunks(ctx, n):
    D = _S['mod'].Debyer(domain=pyPRISM.Domain(length=8, dk=0.1), nthreads=1)
    for c in range(1, 65):
        ctx.hook('chunk.partition_checked')
        t = np.asarray(D._chunk(n, c))
        ok = t.shape == (c, 2)
        covered = []
        if ok:
            pos = 0
            for a, b in t:
                if a == 0 and b == 0 and pos >= n:
                    continue                  # unused row
                if a != pos or b <= a or b > n:
                    ok = False
                    break
                covered.append((int(a), int(b)))
                pos = int(b)
            ok = ok and pos == n
        if not ok:
            ctx.violation('debyer:chunk-table-not-a-partition', '_chunk(%d, %d) = %s is not a partition of [0,%d) into consecutive ranges' % (n, c, t.tolist(), n))
            return
    ctx.nontrivial(['chunk', n])


def run_traj(ctx, case):
    rng = np.random.default_rng(case['seed'])
    selfo = bool(case['self'])
    dom, p1, p2, m1, m2, box = gen_traj(rng, selfo)
    k = np.asarray(dom.k)
    ref = reference(p1, p2, m1, m2, box, selfo, k)
    N1 = p1.shape[1]
    npairs = int(((m1[:, None] == m2[None, :]) & (~np.eye(N1, dtype=bool) if selfo else True)).sum())
    tol = 1e-4 * np.maximum(1.0, np.abs(ref))
    nts = sorted(set([1, 2, 3, 4, 5, 7, 8, 16, 17, 40, max(1, N1 - 1), N1, N1 + 1] + [int(x) for x in rng.integers(1, 17, size=3)]))
    if not ctx.thorough():
        nts = sorted(set([1, 2, 16, 17, max(1, N1 - 1), N1, N1 + 1] + [int(x) for x in rng.integers(1, 17, size=2)]))
    nsched = 0
    first = None
    for team in ([1, 2, 4, 16] if ctx.thorough() else [int(rng.choice([1, 2, 4])), 16]):
        set_team(team)
        for nt in nts:
            D = _S['mod'].Debyer(domain=dom, nthreads=nt)
            if nt % 3 == 0 and N1 >= 4:
                # the analyser object has been used before, for a smaller selection (omega of a minority type first)
                sub = slice(0, max(2, N1 // 3))
                D.calculate(np.array(p1[:, sub]), np.array(p1[:, sub]), np.array(m1[sub]), np.array(m1[sub]), np.array(box), True)
                ctx.hook('debye.object_reused_after_smaller_selection')
            # how the caller holds the arrays: fresh contiguous copies, a column of a (site, [type, molecule]) table (strided int64 view),
            # every other element of a longer array, a row of a table, Fortran-ordered or float64 coordinates
            lay = (case['seed'] + nt) % 6

            def labels(m):
                if (case['seed'] // 6) % 4 == 1:
                    m = m + 2 ** 24 + 1             # global molecule ids of a large simulation (beyond the exactly representable float32 integers)
                elif (case['seed'] // 6) % 4 == 2:
                    m = m * 3 + 2 ** 40
                if lay == 1:
                    return np.stack([np.zeros_like(m), m], axis=1)[:, 1]
                if lay == 2:
                    return np.repeat(m, 2)[::2]
                if lay == 3:
                    return np.stack([m, m + 1, m + 2], axis=0)[0, ::1][::-1][::-1]        # a row of a table, reversed twice (negative-stride view of a view)
                return np.array(m)

            def coords(pp):
                if lay == 4:
                    return np.asfortranarray(pp)
                if lay == 5:
                    return np.array(pp, dtype=np.float64)[:, :, :]
                return np.array(pp)
            ctx.count('array_layout', ['contiguous', 'labels: column view', 'labels: every other element', 'labels: row of a table', 'coordinates: Fortran order', 'coordinates: float64'][lay])
            out = np.asarray(D.calculate(coords(p1), coords(p2), labels(m1), labels(m2), np.array(box), selfo), dtype=float)
            ctx.hook('debye.schedules')
            nsched += 1
            if out.shape != ref.shape or not np.all(np.abs(out - ref) <= tol):
                e = float(np.abs(out - ref).max()) if out.shape == ref.shape else np.inf
                ctx.violation('debyer:differs-from-debye-sum:%s' % ('self' if selfo else 'cross'),
                              'Debyer(nthreads=%d).calculate (OpenMP team %d, %d frames, %d/%d sites, %d intramolecular pairs, selfOmega=%s) differs from the direct Debye sum by %.3g' % (
                                  nt, team, p1.shape[0], N1, p2.shape[1], npairs, selfo, e))
                return
            ctx.observe('debye_err/tol', float((np.abs(out - ref) / tol).max()))
            if first is None:
                first = out
    ctx.hook('debye.compared')
    # repeated runs under the largest team: bit-identical (each accumulator row belongs to one thread)
    set_team(16)
    D = _S['mod'].Debyer(domain=dom, nthreads=16)
    base = np.asarray(D.calculate(np.array(p1), np.array(p2), np.array(m1), np.array(m2), np.array(box), selfo))
    for rep in range(20 if ctx.thorough() else 6):
        again = np.asarray(D.calculate(np.array(p1), np.array(p2), np.array(m1), np.array(m2), np.array(box), selfo))
        if not np.array_equal(base, again):
            ctx.violation('debyer:nondeterministic-under-threads', 'two identical calls under 16 threads differ by %.3g (shared accumulator?)' % float(np.abs(base - again).max()))
            return
    # site permutation (molecule labels permuted consistently)
    perm = rng.permutation(N1)
    if selfo:
        out = np.asarray(D.calculate(np.array(p1[:, perm]), np.array(p1[:, perm]), np.array(m1[perm]), np.array(m1[perm]), np.array(box), True), dtype=float)
    else:
        perm2 = rng.permutation(p2.shape[1])
        out = np.asarray(D.calculate(np.array(p1[:, perm]), np.array(p2[:, perm2]), np.array(m1[perm]), np.array(m2[perm2]), np.array(box), False), dtype=float)
    if not np.all(np.abs(out - ref) <= tol):
        ctx.violation('debyer:depends-on-site-order', 'permuting the sites changes the result by %.3g' % float(np.abs(out - ref).max()))
        return
    set_team(1)
    if npairs >= 1 and nsched >= 4:
        ctx.nontrivial(case)
    ctx.count('self', selfo)
    ctx.count('sites', 10 * (N1 // 10))
    ctx.sample({'frames': p1.shape[0], 'sites': [N1, p2.shape[1]], 'molecules': int(len(set(m1.tolist()))), 'pairs': npairs, 'self': selfo, 'nthreads': nts,
                'bins': len(k), 'dk': dom.dk, 'omega_head': ref[:3]}, limit=4)


ASAN_DRIVER = r'''
import sys, json, numpy as np, ctypes, warnings
warnings.simplefilter('ignore')
sys.path.insert(0, sys.argv[1])
import pyPRISM, Debyer
from pvmon.checks import c18
omp = ctypes.CDLL('libgomp.so.1')
rng = np.random.default_rng(int(sys.argv[2]))
n = 0
for it in range(int(sys.argv[3])):
    selfo = bool(rng.random() < 0.6)
    dom, p1, p2, m1, m2, box = c18.gen_traj(rng, selfo)
    ref = c18.reference(p1, p2, m1, m2, box, selfo, np.asarray(dom.k))
    N1 = p1.shape[1]
    for team in (1, 4, 16):
        omp.omp_set_num_threads(team)
        for nt in sorted(set([1, 3, 16, 17, max(1, N1 - 1), N1, N1 + 1])):
            out = np.asarray(Debyer.Debyer(domain=dom, nthreads=nt).calculate(np.array(p1), np.array(p2), np.array(m1), np.array(m2), np.array(box), selfo), dtype=float)
            n += 1
            if not np.all(np.abs(out - ref) <= 1e-4 * np.maximum(1, np.abs(ref))):
                print('MISMATCH', nt, team, float(np.abs(out - ref).max()))
D = Debyer.Debyer(domain=pyPRISM.Domain(length=8, dk=0.1), nthreads=1)
for nn in range(1, 60):
    for c in range(1, 40):
        D._chunk(nn, c)
print('ASAN-DRIVER-OK', n)
'''


def run_asan(ctx, case):
    try:
        d = locked_build('asan')
    except native.BuildError as e:
        raise core.Skip('sanitized build failed: %s' % str(e)[-200:])
    env = native.sanitizer_env()
    env['PYTHONPATH'] = os.pathsep.join([core.REPO, core.HOME])
    env['OMP_NUM_THREADS'] = '16'
    r = subprocess.run([sys.executable, '-W', 'ignore', '-c', ASAN_DRIVER, d, str(case['seed']), str(case['ncases'])], env=env, stdout=subprocess.PIPE,
                       stderr=subprocess.STDOUT, universal_newlines=True, timeout=600)
    out = r.stdout
    ctx.hook('asan.cases', int(case['ncases']))
    if 'AddressSanitizer' in out or 'runtime error:' in out or r.returncode in (97, 98):
        kind = 'heap-buffer-overflow' if 'heap-buffer-overflow' in out else ('ubsan' if 'runtime error:' in out else 'asan')
        lines = [l for l in out.splitlines() if 'ERROR' in l or 'runtime error' in l or 'Debyer.c' in l][:6]
        ctx.violation('debyer:sanitizer-report:%s' % kind, 'ASan/UBSan build reports: %s' % ' | '.join(lines), case, {'log': out[-6000:]})
        return
    if 'MISMATCH' in out:
        ctx.violation('debyer:differs-from-debye-sum:asan-build', 'sanitized build: %s' % [l for l in out.splitlines() if 'MISMATCH' in l][:2])
        return
    if 'ASAN-DRIVER-OK' not in out:
        raise core.HarnessError('sanitizer driver failed rc=%s:\n%s' % (r.returncode, out[-2000:]))
    ctx.nontrivial(case)


def run_case(ctx, case):
    if case['kind'] == 'chunk':
        return check_chunks(ctx, int(case['n']))
    if case['kind'] == 'traj':
        return run_traj(ctx, case)
    return run_asan(ctx, case)
