"""C16 - A PRISM object is a faithful, isolated snapshot of a fully specified System.

Monitor shapes:
 * counters on the real PRISM.__init__ and PRISM.cost (wrapped on the class) decide "never start a calculation";
 * a structural digest of the System (all tables, every object's __dict__, domain arrays) taken before/after
   createPRISM / solve decides "does not modify the System"; the digest of the PRISM object decides isolation;
 * sys.monitoring failpoints raise InjectedFault at every executable line of PRISM.__init__ in turn
   (crash points): whatever line construction aborts at, the System must be unchanged and reusable;
 * wiring is compared with the reference model evaluated from the user-level spec;
 * edit/solve sweeps on one System are compared step by step with freshly built Systems.
"""
import copy
import hashlib
import itertools
import sys
import warnings

import numpy as np

import pyPRISM
from pyPRISM.core.PRISM import PRISM
from pyPRISM.core.Space import Space

from .. import core
from .. import refmodel as R
from .. import gen as G
from .. import tutorials as T

PID = 'C16'
RULE = ('omission cases = subsets of size 1-2 (quick) / 1-3 (thorough, up to 400 per rank and size) of {domain, each density, each diameter, each pair\'s potential/closure/omega} left '
        'unspecified on rank 1-3 systems; snapshot cases = random systems: wiring vs reference, System digest before/after createPRISM and solve, PRISM digest '
        'before/after hostile edits of the System; failpoint cases = InjectedFault at each executable line of PRISM.__init__, and at the 1st/2nd/3rd/7th cost evaluation of System.solve / PRISM.solve; sweep cases = 3-8 edits over '
        '{density, diameter, kT, potential, closure, omega, new Domain, Domain.dr/dk/length setters} each followed by solve and compared with a freshly built '
        'System; non-trivial = omission of >= 1 item / sweep with >= 3 compared steps / snapshot with >= 1 edit; distinct = distinct case digests')
ASSUMPTIONS = ['"same result as a freshly built System" is decided on the identical deterministic solver path (zero guess, same options): converged results must agree to 1e-6 relative (bit-identical in practice; convention errors are O(1e-2..1))',
               'wiring: contact points (|r - sigma| < 1e-6) are judged by C10, masked here']
MINIMA = {'quick': {'omission.case': 60, 'counter.init_never_started': 60, 'wiring.pair': 100, 'digest.system_unchanged': 60, 'failpoint.injected': 40, 'sweep.step_compared': 100, 'isolation.edit': 60},
          'thorough': {'omission.case': 1000, 'counter.init_never_started': 1000, 'wiring.pair': 3000, 'digest.system_unchanged': 2000, 'failpoint.injected': 600, 'sweep.step_compared': 4000, 'isolation.edit': 2000}}
SHARDS = {'quick': 8, 'thorough': 16}
TIME_BUDGET = {'quick': 50, 'thorough': 280}

_S = {'ctx': None, 'init': 0, 'cost': 0, 'orig_init': None}
TOOL = 3


class InjectedFault(Exception):
    pass


# ----------------------------------------------------------------------------- digests

def digest(obj, depth=0, seen=None):
    """structural digest: value-based, independent of object identity; callables are skipped"""
    h = hashlib.sha1()

    def walk(o, d):
        if d > 12:
            h.update(b'<deep>')
            return
        if o is None or isinstance(o, (bool, int, float, str, bytes, np.floating, np.integer)):
            h.update(repr(o).encode())
        elif isinstance(o, np.ndarray):
            h.update(str(o.shape).encode())
            h.update(np.ascontiguousarray(o).tobytes())
        elif isinstance(o, (list, tuple)):
            h.update(b'[')
            for x in o:
                walk(x, d + 1)
            h.update(b']')
        elif isinstance(o, dict):
            h.update(b'{')
            for k in sorted(o, key=repr):
                h.update(repr(k).encode())
                walk(o[k], d + 1)
            h.update(b'}')
        elif isinstance(o, Space):
            h.update(o.name.encode())
        elif callable(o) and not hasattr(o, '__dict__'):
            h.update(b'<callable>')
        elif hasattr(o, '__dict__'):
            if type(o).__name__ == 'function':
                h.update(b'<function>')
                return
            h.update(type(o).__name__.encode())
            walk({k: v for k, v in vars(o).items() if not k.startswith('_pvmon')}, d + 1)
        else:
            h.update(repr(type(o)).encode())
    walk(obj, depth)
    return h.hexdigest()[:16]


def explain_diff(a, b, path='sys', out=None, depth=0):
    """first differing attribute path between two object graphs (for the witness)"""
    if out is None:
        out = []
    if len(out) > 3 or depth > 10:
        return out
    if isinstance(a, np.ndarray) or isinstance(b, np.ndarray):
        if not (isinstance(a, np.ndarray) and isinstance(b, np.ndarray) and a.shape == b.shape and np.array_equal(a, b, equal_nan=True)):
            out.append(path)
    elif hasattr(a, '__dict__') and hasattr(b, '__dict__') and type(a).__name__ != 'function':
        for k in sorted(set(vars(a)) | set(vars(b))):
            if k.startswith('_pvmon'):
                continue
            if k not in vars(a) or k not in vars(b):
                out.append(path + '.' + k)
            else:
                explain_diff(vars(a)[k], vars(b)[k], path + '.' + k, out, depth + 1)
    elif isinstance(a, dict) and isinstance(b, dict):
        for k in sorted(set(a) | set(b), key=repr):
            if k not in a or k not in b:
                out.append('%s[%r]' % (path, k))
            else:
                explain_diff(a[k], b[k], '%s[%r]' % (path, k), out, depth + 1)
    elif isinstance(a, (list, tuple)) and isinstance(b, (list, tuple)) and len(a) == len(b):
        for i, (x, y) in enumerate(zip(a, b)):
            explain_diff(x, y, '%s[%d]' % (path, i), out, depth + 1)
    elif callable(a) and callable(b):
        pass
    elif a != b and not (isinstance(a, float) and isinstance(b, float) and a != a and b != b):
        out.append('%s (%r -> %r)' % (path, a, b))
    return out


# ----------------------------------------------------------------------------- hooks

def setup(ctx):
    _S['ctx'] = ctx
    if getattr(PRISM, '_pvmon_c16', False):
        return
    orig_init = PRISM.__dict__['__init__']
    orig_cost = PRISM.__dict__['cost']
    _S['orig_init'] = orig_init

    def init(self, *a, **kw):
        _S['init'] += 1
        return orig_init(self, *a, **kw)

    def cost(self, x):
        _S['cost'] += 1
        if _S.get('fail_at') is not None:
            _S['fail_count'] = _S.get('fail_count', 0) + 1
            if _S['fail_count'] == _S['fail_at']:
                raise InjectedFault('cost evaluation %d' % _S['fail_count'])
        return orig_cost(self, x)
    PRISM.__init__ = init
    PRISM.cost = cost
    PRISM._pvmon_c16 = True


# ----------------------------------------------------------------------------- cases

def items_of(sp):
    it = ['domain']
    for t in sp['types']:
        it += ['rho:' + t, 'd:' + t]
    for key in sp['pot']:
        it += ['pot:' + key, 'clo:' + key, 'om:' + key]
    return it


def cases(ctx):
    rng = ctx.rng('c16')
    for i, name in enumerate(T.NAMES):
        if ctx.mine(i):
            yield {'kind': 'tutorial', 'name': name}
    # --- omissions (systematic)
    idx = 0
    for rank in (1, 2, 3):
        sp = G.easy_spec(np.random.default_rng([ctx.seed, rank, 16]), rank=rank, L=64)
        its = items_of(sp)
        for size in (1, 2, 3) if ctx.thorough() else (1, 2):
            combos = list(itertools.combinations(its, size))
            cap = 400 if ctx.thorough() else 60
            if len(combos) > cap:
                sel = np.random.default_rng([ctx.seed, rank, size]).choice(len(combos), cap, replace=False)
                combos = [combos[i] for i in sorted(sel)]
            for omit in combos:
                idx += 1
                if ctx.mine(idx):
                    yield {'kind': 'omit', 'rank': rank, 'omit': list(omit), 'via': ['createPRISM', 'solve'][idx % 2], 'specseed': [ctx.seed, rank, 16]}
    n = ctx.budget(80, 3000)
    for it in range(n):
        yield {'kind': 'snapshot', 'seed': int(rng.integers(0, 2 ** 31)), 'rank': int(rng.integers(1, 4))}
    n = ctx.budget(6, 60)
    for it in range(n):
        yield {'kind': 'failpoint', 'seed': int(rng.integers(0, 2 ** 31)), 'rank': int(rng.integers(1, 4))}
    n = ctx.budget(16, 400)
    for it in range(n):
        yield {'kind': 'solve_failpoint', 'seed': int(rng.integers(0, 2 ** 31)), 'rank': int(rng.integers(1, 4))}
    for it in range(ctx.budget(16, 400)):
        yield {'kind': 'reentrant', 'seed': int(rng.integers(0, 2 ** 31)), 'rank': int(rng.integers(2, 4))}
    for it in range(ctx.budget(120, 4000)):
        yield {'kind': 'prism_sys_history', 'seed': int(rng.integers(0, 2 ** 31)), 'rank': int(rng.integers(1, 3)), 'nsteps': int(rng.integers(2, 7))}
    n = ctx.budget(48, 1600)
    for it in range(n):
        yield {'kind': 'sweep', 'seed': int(rng.integers(0, 2 ** 31)), 'rank': int(rng.integers(1, 4)), 'nsteps': int(rng.integers(3, 9))}


# ----------------------------------------------------------------------------- omissions

def run_omit(ctx, case):
    sp = G.easy_spec(np.random.default_rng(case['specseed']), rank=int(case['rank']), L=64)
    s = G.build(sp, omit=set(case['omit']))
    missing_d = [x.split(':')[1] for x in case['omit'] if x.startswith('d:')]
    if missing_d and len(case['omit']) % 2 == 1:
        # the diameter is missing but every contact distance involving that type was written into the sigma table by hand: a
        # diameter is still missing (the site volume, chi, the closure's core all need it)
        for t in missing_d:
            for u in sp['types']:
                s.diameter.sigma[t, u] = 1.0
        ctx.hook('omission.diameter_missing_but_sigma_written')
    ctx.hook('omission.case')
    strict = sum(map(len, case['omit'])) % 2 == 0
    if strict:
        # the user runs with warnings turned into errors (python -W error) and one diameter is not a multiple of dr: the library's
        # "sigma is not on the grid" warning must not pre-empt the ValueError for the missing item
        present = [t for t in sp['types'] if 'd:' + t not in case['omit']]
        if present:
            s.diameter[present[0]] = sp['d'][present[0]] + 0.037
        ctx.hook('omission.warnings_as_errors')
    i0, c0 = _S['init'], _S['cost']
    before = digest(s)
    try:
        with np.errstate(all='ignore'), warnings.catch_warnings():
            if strict:
                warnings.simplefilter('error')
            if case['via'] == 'createPRISM':
                s.createPRISM()
            else:
                s.solve(options={'disp': False, 'maxiter': 3})
        outcome = 'returned'
    except ValueError:
        outcome = 'ValueError'
    except Exception as e:   # noqa
        outcome = type(e).__name__
    what = 'System lacking %s: %s' % (case['omit'], case['via'])
    if outcome != 'ValueError':
        ctx.violation('snapshot:partial-system-%s:%s' % ('accepted' if outcome == 'returned' else 'raises-' + outcome, sorted(set(x.split(':')[0] for x in case['omit']))),
                      '%s %s instead of raising ValueError' % (what, 'returned a PRISM object' if outcome == 'returned' else 'raised ' + outcome))
    if _S['init'] != i0 or _S['cost'] != c0:
        ctx.violation('snapshot:calculation-started-on-partial-system', '%s: PRISM.__init__ ran %d time(s) and cost %d time(s) before the rejection' % (what, _S['init'] - i0, _S['cost'] - c0))
    else:
        ctx.hook('counter.init_never_started')
    if digest(s) != before:
        ctx.violation('snapshot:rejected-call-modified-system', '%s modified the System although it was rejected' % what)
    ctx.nontrivial(case)
    ctx.count('omitted', '+'.join(sorted(x.split(':')[0] for x in case['omit'])))


# ----------------------------------------------------------------------------- wiring

def check_wiring(ctx, p, sp, where):
    types = sp['types']
    r, k, dk = R.grids(sp['L'], sp['dr'])
    rho = np.array([sp['rho'][t] for t in types])
    pair, site = R.rho_mats(rho)
    for (i, j), (a, b) in G.pairs(types):
        ctx.hook('wiring.pair')
        sig = sp.get('sigma_table', {}).get(G.pk(a, b), (sp['d'][a] + sp['d'][b]) / 2.0)      # the System's contact distance of that pair
        ps = sp['pot'][G.pk(a, b)]
        clo = p.sys.closure[G.lab(sp, a), G.lab(sp, b)]
        if abs(clo.sigma - sig) > R.CONTACT_TOL:
            ctx.violation('snapshot:wiring-closure-sigma', '%s: closure[%s,%s].sigma=%r, contact distance of that pair is %r' % (where, a, b, clo.sigma, sig))
        su = R.pot_sigma(ps, sig)
        ref = R.u_ref(dict(ps, sigma=R.snap(su, r)), r, None) / sp['kT']
        ref2 = R.u_ref(dict(ps, sigma=su), r, None) / sp['kT']
        m = R.branch_mask(ps, r, sig)
        got = np.asarray(clo.potential, dtype=float)
        ok = got.shape == ref.shape and (np.allclose(got[m], ref[m], rtol=1e-10, atol=0) or np.allclose(got[m], ref2[m], rtol=1e-10, atol=0))
        if not ok:
            ctx.violation('snapshot:wiring-closure-potential', '%s: closure[%s,%s].potential is not %s%s on the domain grid divided by kT=%r' % (where, a, b, ps['t'], {kk: v for kk, v in ps.items() if kk != 't'}, sp['kT']))
        if type(clo).__name__ not in [n for n in G.CLOSURES[sp['clo'][G.pk(a, b)]['t']]]:
            ctx.violation('snapshot:wiring-closure-class', '%s: pair %s-%s got closure %s, specified %s' % (where, a, b, type(clo).__name__, sp['clo'][G.pk(a, b)]['t']))
        wref = R.w_ref(sp['om'][G.pk(a, b)], k) * site[i, j]
        W = np.asarray(p.omega[G.lab(sp, a), G.lab(sp, b)], dtype=float)
        N = sp['om'][G.pk(a, b)].get('N', 1)
        if W.shape != wref.shape or not np.all(np.abs(W - wref) <= 1e-7 * N * site[i, j] + 1e-12):
            ctx.violation('snapshot:wiring-omega', '%s: omega[%s,%s] is not %s evaluated on the domain k grid times the site density %r' % (where, a, b, sp['om'][G.pk(a, b)]['t'], site[i, j]))
        W2 = np.asarray(p.omega[G.lab(sp, b), G.lab(sp, a)], dtype=float)
        if not np.array_equal(W, W2):
            ctx.violation('snapshot:wiring-omega-asymmetric', '%s: omega[%s,%s] != omega[%s,%s]' % (where, a, b, b, a))
    if p.omega.space != Space.Fourier:
        ctx.violation('snapshot:wiring-omega-space', '%s: omega is not flagged as Fourier space' % where)


EDITS = ['density', 'diameter', 'kT', 'potential', 'closure', 'omega', 'domain_new', 'domain_dr', 'domain_length', 'domain_dk', 'potential_sigma', 'potential_sigma']


def apply_edit(rng, s, sp, kind):
    """apply one user-level edit to the live System `s` and to the spec `sp` (returns a description)"""
    types = sp['types']
    t = str(rng.choice(types))
    a, b = sorted([str(rng.choice(types)), str(rng.choice(types))])
    key = G.pk(a, b)
    L_ = lambda x: G.lab(sp, x)
    if kind == 'density':
        v = float(sp['rho'][t] * rng.uniform(0.5, 1.3))
        if rng.random() < 0.3:
            s.density[[L_(x) for x in types]] = v
            for tt in types:
                sp['rho'][tt] = v
            return 'density[all]=%r' % v
        s.density[L_(t)] = v
        sp['rho'][t] = v
        return 'density[%s]=%r' % (t, v)
    if kind == 'diameter':
        v = G.on_grid(rng, sp['dr'], 0.8, 1.4)
        s.diameter[L_(t)] = v
        sp['d'][t] = v
        # a non-additive contact distance written into the sigma table belongs to its pair: assigning a diameter of one of its members
        # re-derives it (the user writes it again), assigning the diameter of ANOTHER type must leave it alone
        for key, val in (sp.get('sigma_table') or {}).items():
            if t in key.split('|'):
                s.diameter.sigma[L_(key.split('|')[0]), L_(key.split('|')[1])] = val
        return 'diameter[%s]=%r' % (t, v)
    if kind == 'kT':
        v = float(rng.choice([0.7, 1.0, 1.3, 2.0, 3.0]))
        s.kT = v
        sp['kT'] = v
        return 'kT=%r' % v
    if kind == 'potential':
        ps = G.gen_pot(rng, G.sigma_of(sp, a, b), allow=('HS', 'HCLJ', 'EXP'), strength=0.3)
        s.potential[L_(a), L_(b)] = G.mk_pot(ps)
        sp['pot'][key] = ps
        return 'potential[%s]=%s' % (key, ps)
    if kind == 'potential_sigma':
        # the contact distance of one pair given explicitly, IN PLACE on the object the table holds (through either key order)
        v = float(round(G.sigma_of(sp, a, b) + float(rng.choice([0.0, 0.0, 1.0, 2.0])) * sp['dr'], 10))
        (s.potential[L_(b), L_(a)] if rng.random() < 0.5 else s.potential[L_(a), L_(b)]).sigma = v
        sp['pot'][key] = dict(sp['pot'][key], sigma=v)
        return 'potential[%s].sigma=%r' % (key, v)
    if kind == 'closure':
        cs = {'t': str(rng.choice(['PY', 'HNC', 'MSA'])), 'hc': True}
        s.closure[L_(a), L_(b)] = G.mk_clo(cs)
        sp['clo'][key] = cs
        return 'closure[%s]=%s' % (key, cs)
    if kind == 'omega':
        os_ = {'t': str(rng.choice(['G', 'FJC', 'RING'])), 'N': int(rng.choice([2, 3, 4, 6])), 's': sp['d'][t]} if rng.random() < 0.7 else {'t': 'SS'}
        s.omega[L_(t), L_(t)] = G.mk_om(os_)
        sp['om'][G.pk(t, t)] = os_
        return 'omega[%s]=%s' % (G.pk(t, t), os_)
    if kind == 'domain_new':
        L = int(rng.choice([64, 100, 128]))
        s.domain = pyPRISM.Domain(length=L, dr=sp['dr'])
        sp['L'] = L
        return 'domain=Domain(length=%d,dr=%r)' % (L, sp['dr'])
    if kind == 'domain_length':
        L = int(rng.choice([64, 96, 128, 160]))
        s.domain.length = L
        sp['L'] = L
        return 'domain.length=%d' % L
    if kind == 'domain_dr':
        dr = float(rng.choice([0.1, 0.05, 0.2]))
        s.domain.dr = dr
        sp['dr'] = dr
        return 'domain.dr=%r' % dr
    if kind == 'domain_dk':
        # choose dk so that dr is one of the usual spacings
        dr = float(rng.choice([0.1, 0.05, 0.2]))
        dk = np.pi / (dr * sp['L'])
        s.domain.dk = dk
        sp['dr'] = float(np.pi / (dk * sp['L']))
        return 'domain.dk=%r' % dk
    raise KeyError(kind)


def prism_arrays(p):
    out = {}
    for n in ('totalCorr', 'directCorr', 'omega'):
        out[n] = np.array(getattr(p, n).data, copy=True)
    return out


def run_snapshot(ctx, case):
    rng = np.random.default_rng(case['seed'])
    sp = G.easy_spec(rng, rank=int(case['rank']), L=int(rng.choice([64, 100, 128])), dr=float(rng.choice([0.1, 0.05, 0.2])))
    if rng.random() < 0.4:
        key = str(rng.choice(list(sp['pot'])))
        a, b = key.split('|')
        # explicit sigma on some pairs, equal to or different from the mean diameter
        sp['pot'][key]['sigma'] = G.sigma_of(sp, a, b) + float(rng.choice([0.0, sp['dr'], 2 * sp['dr']]))
    if len(sp['types']) > 1 and rng.random() < 0.5:
        # copolymer-like: tabulated, non-zero cross intramolecular correlations
        G.add_cross_omegas(sp, rng, p_pair=0.7, amp=(0.2, 1.5))
    if rng.random() < 0.12:
        arr = {k: v for k, v in sp['om'].items() if v['t'] == 'ARR'}
        sp = G.integer_grid(sp)
        kgrid = R.grids(sp['L'], sp['dr'])[1]
        for k in arr:
            sp['om'][k] = {'t': 'ARR', 'w': (0.5 * np.exp(-kgrid * 3.0)).tolist()}
    sp['labels'] = G.choose_labels(rng, sp['types'])
    originals = []
    s = G.build(sp, originals=originals)
    sp['sigma_table'] = {}
    if len(sp['types']) > 1 and rng.random() < 0.3:
        # non-additive mixture: the user writes a cross contact distance into the System's public sigma table
        a, b = sp['types'][0], sp['types'][1]
        val = float(G.sigma_of(sp, a, b) + rng.choice([1, 2]) * sp['dr'])
        s.diameter.sigma[G.lab(sp, a), G.lab(sp, b)] = val
        sp['sigma_table'][G.pk(a, b)] = val
    # the user keeps the objects he assigned and goes on editing them (re-using one potential object for the next pair
    # or System): the tables hold copies, so the System - and everything built from it - must not notice
    for obj in originals:
        for attr, val in (('epsilon', -9.0), ('alpha', 0.01), ('sigma', 3.3), ('rcut', 1.01), ('high_value', 1.0), ('length', 999), ('N', 999), ('l', 9.9),
                          ('apply_hard_core', False), ('potential', np.ones(2))):
            if hasattr(obj, attr):
                try:
                    setattr(obj, attr, val)
                except Exception:
                    pass
        if isinstance(getattr(obj, 'value', None), np.ndarray):
            obj.value[...] = -1.0
    ctx.hook('isolation.users_objects_edited')
    before = digest(s)
    keep = copy.deepcopy(s)
    with np.errstate(all='ignore'):
        p = s.createPRISM()
    ctx.hook('digest.system_unchanged')
    if digest(s) != before:
        ctx.violation('snapshot:createPRISM-modifies-system', 'createPRISM changed the System: %s' % explain_diff(keep, s)[:3])
        return
    check_wiring(ctx, p, sp, 'createPRISM')
    # solve through the System and through the object: System untouched
    with np.errstate(all='ignore'):
        try:
            q = s.solve(method='krylov', options={'disp': False, 'maxiter': 15})
        except G.SOLVE_ERRORS:
            q = None
    ctx.hook('digest.system_unchanged')
    if digest(s) != before:
        ctx.violation('snapshot:solve-modifies-system', 'System.solve changed the System: %s' % explain_diff(keep, s)[:3])
        return
    G.solve(p, 'krylov', {'maxiter': 15})
    if digest(s) != before:
        ctx.violation('snapshot:solve-modifies-system', 'PRISM.solve changed the System it was created from: %s' % explain_diff(keep, s)[:3])
        return
    # two objects created from the same System share nothing: wrecking one leaves the other (and the System) alone
    with np.errstate(all='ignore'):
        p_a, p_b = s.createPRISM(), s.createPRISM()
    db = digest(p_b)
    for t in p_a.sys.types:
        p_a.sys.density[t] = 9.9
        p_a.sys.diameter[t] = 7.7
    p_a.sys.kT = 123.0
    p_a.omega.data[...] = -1.0
    p_a.sys.domain.dr = p_a.sys.domain.dr * 3
    for i, (ta, tb), clo in p_a.sys.closure.iterpairs():
        clo.potential[...] = 0.0
        clo.sigma = -2.0
    ctx.hook('isolation.sibling_object')
    if digest(p_b) != db:
        ctx.violation('snapshot:objects-from-one-system-share-state', 'modifying one PRISM object changed another one created from the same System: %s' % [x.replace('sys', 'PRISM', 1) for x in explain_diff(copy.deepcopy(p_b), p_b)[:1]])
        return
    if digest(s) != before:
        ctx.violation('snapshot:prism-object-shares-state-with-system', 'modifying a PRISM object changed the System it was created from: %s' % explain_diff(keep, s)[:3])
        return
    # isolation: hostile edits of the System after creation leave the PRISM object unchanged
    pd = digest(p)
    pkeep = copy.deepcopy(p)
    sp2 = copy.deepcopy(sp)
    nedit = 0
    for kind in rng.permutation(EDITS)[:int(rng.integers(2, 6))]:
        apply_edit(rng, s, sp2, str(kind))
        nedit += 1
        ctx.hook('isolation.edit')
    # in-place mutation of objects the user still holds
    for key in sp['pot']:
        a, b = [G.lab(sp, x) for x in key.split('|')]
        s.potential[a, b].sigma = 123.0
        s.closure[a, b].potential = np.zeros(3)
        s.closure[a, b].sigma = -1.0
    s.domain.r[:] = -5.0
    if digest(p) != pd:
        ctx.violation('snapshot:later-system-edits-reach-prism-object', 'editing the System after createPRISM changed the PRISM object: %s' % [x.replace('sys', 'PRISM', 1) for x in explain_diff(pkeep, p)[:3]])
        return
    # and the object still evaluates exactly as before
    x = rng.normal(size=len(p.x)) * 0.1
    with np.errstate(all='ignore'):
        try:
            y1 = np.array(pkeep.cost(np.array(x)))
            y2 = np.array(p.cost(np.array(x)))
            if not np.array_equal(y1, y2, equal_nan=True):
                ctx.violation('snapshot:later-system-edits-reach-prism-object', 'after editing the System the PRISM object evaluates cost differently')
        except np.linalg.LinAlgError:
            pass
    ctx.nontrivial(case)
    ctx.count('snapshot_rank', len(sp['types']))
    ctx.sample({'snapshot': G.spec_signature(sp), 'edits': nedit}, limit=2)


# ----------------------------------------------------------------------------- failpoints (crash points of construction)

def run_failpoint(ctx, case):
    rng = np.random.default_rng(case['seed'])
    sp = G.easy_spec(rng, rank=int(case['rank']), L=64)
    s = G.build(sp)
    before = digest(s)
    keep = copy.deepcopy(s)
    code = _S['orig_init'].__code__
    lines = sorted({l for (_, _, l) in code.co_lines() if l and l > code.co_firstlineno})
    mon = sys.monitoring
    target = [None]

    def cb(c, line):
        if c is code and line == target[0]:
            raise InjectedFault(line)
        return None
    mon.use_tool_id(TOOL, 'pvmon-c16')
    try:
        mon.register_callback(TOOL, mon.events.LINE, cb)
        mon.set_local_events(TOOL, code, mon.events.LINE)
        fired = 0
        for l in lines:
            target[0] = l
            try:
                with np.errstate(all='ignore'):
                    s.createPRISM()
            except InjectedFault:
                fired += 1
                ctx.hook('failpoint.injected')
            if digest(s) != before:
                ctx.violation('snapshot:aborted-construction-modifies-system', 'PRISM construction aborted at PRISM.py line %d left the System modified: %s' % (l, explain_diff(keep, s)[:3]))
                return
        target[0] = None
    finally:
        mon.set_local_events(TOOL, code, 0)
        mon.register_callback(TOOL, mon.events.LINE, None)
        mon.free_tool_id(TOOL)
    with np.errstate(all='ignore'):
        p = s.createPRISM()
        q = G.build(sp).createPRISM()
    if digest(p) != digest(q):
        ctx.violation('snapshot:system-not-reusable-after-aborted-construction', 'after %d aborted constructions the System builds a different PRISM object than a fresh System: %s' % (fired, explain_diff(q, p)[:3]))
    ctx.count('failpoint_lines', len(lines))
    if fired >= 5:
        ctx.nontrivial(case)
    ctx.sample({'failpoints': {'lines': len(lines), 'fired': fired}}, limit=1)


def run_solve_failpoint(ctx, case):
    """crash points of a calculation: the k-th evaluation of the cost function raises; the System must be unchanged and re-usable"""
    rng = np.random.default_rng(case['seed'])
    sp = G.easy_spec(rng, rank=int(case['rank']), L=64, eta_max=0.15)
    s = G.build(sp)
    before = digest(s)
    keep = copy.deepcopy(s)
    opts = {'disp': False, 'maxiter': 30, 'fatol': 1e-10}
    try:
        for k in (1, 2, 3, 7):
            for via in ('System.solve', 'PRISM.solve'):
                _S['fail_at'], _S['fail_count'] = k, 0
                try:
                    with np.errstate(all='ignore'):
                        if via == 'System.solve':
                            s.solve(method='krylov', options=dict(opts))
                        else:
                            s.createPRISM().solve(method='krylov', options=dict(opts))
                except InjectedFault:
                    ctx.hook('failpoint.injected')
                except G.SOLVE_ERRORS:
                    pass
                if digest(s) != before:
                    ctx.violation('snapshot:aborted-solve-modifies-system', '%s aborted at cost evaluation %d left the System modified: %s' % (via, k, explain_diff(keep, s)[:3]))
                    return
    finally:
        _S['fail_at'] = None
    out = []
    for system in (s, G.build(sp)):
        try:
            with np.errstate(all='ignore'):
                p = system.solve(method='krylov', options=dict(opts))
            out.append(prism_arrays(p))
        except G.SOLVE_ERRORS:
            out.append(None)
    if (out[0] is None) != (out[1] is None) or (out[0] is not None and any(not np.array_equal(out[0][n], out[1][n], equal_nan=True) for n in out[0])):
        ctx.violation('snapshot:system-not-reusable-after-aborted-solve', 'after aborted solves the System gives a different result than a fresh System')
        return
    ctx.nontrivial(case)


# ----------------------------------------------------------------------------- sweeps

def run_sweep(ctx, case):
    rng = np.random.default_rng(case['seed'])
    sp = G.easy_spec(rng, rank=int(case['rank']), L=int(rng.choice([64, 128])), dr=0.1, eta_max=0.15)
    sp['labels'] = G.choose_labels(rng, sp['types'])
    if len(sp['types']) >= 2 and case['seed'] % 3 != 1:
        # a non-additive cross contact distance, set once at the start of the sweep
        a, b = sp['types'][0], sp['types'][1]
        sp['sigma_table'] = {G.pk(a, b): float(G.sigma_of(sp, a, b) + sp['dr'])}
        ctx.hook('sweep.with_non_additive_sigma')
    s = G.build(sp)
    opts = {'disp': False, 'maxiter': 40, 'fatol': 1e-10, 'line_search': str(rng.choice(['armijo', 'wolfe']))}
    steps = []
    compared = 0
    # every other sweep is ALSO continued on the System a PRISM object carries (PRISM.sys of the previous step): a System
    # object like any other, reachable through a documented attribute
    cont = None
    cont_diam_edit = False
    follow = bool(case['seed'] % 2 == 0)
    for step in range(int(case['nsteps']) + 1):
        if step > 0:
            kind = str(rng.choice(EDITS))
            if sp.get('sigma_table') and rng.random() < 0.4:
                kind = 'diameter'               # sweeps over a diameter while another pair keeps its non-additive contact distance
            if steps and steps[-1].startswith('potential[') and '.sigma=' in steps[-1] and rng.random() < 0.6:
                kind = 'diameter'               # a core fixed explicitly in the potential, then the diameters are swept
            if cont is not None:
                state, sp_before = copy.deepcopy(rng.bit_generator.state), copy.deepcopy(sp)
            steps.append(apply_edit(rng, s, sp, kind))
            if cont is not None:
                rng2 = np.random.default_rng(0)
                rng2.bit_generator.state = state
                apply_edit(rng2, cont, sp_before, kind)              # the same edit, decided from the same random state
                cont_diam_edit |= (kind == 'diameter')
        where = 'sweep step %d after edits %s' % (step, steps)
        out = []
        for which, system in (('reused', s), ('fresh', G.build(sp))) + ((('continued', cont),) if cont is not None else ()):
            try:
                with np.errstate(all='ignore'):
                    p = system.solve(method='krylov', options=dict(opts))
                out.append((prism_arrays(p), bool(p.minimize_result.success), None))
                if which == 'reused' and follow:
                    nxt = p.sys
            except G.SOLVE_ERRORS as e:
                fs = core.innermost_repo_frame(e.__traceback__)
                out.append((None, False, '%s@%s' % (type(e).__name__, fs.name if fs else '?')))
                if which == 'reused':
                    nxt = None
        if cont is not None:
            (c_, sc_, ec_), (b_, sb_, eb_) = out[2], out[1]
            ctx.hook('sweep.continued_on_prism_sys')
            derived = any(v.get('sigma') is None and v['t'] in ('HS', 'HCLJ', 'EXP', 'LJ', 'WCA') for v in sp['pot'].values())
            mech = None
            if (c_ is None) != (b_ is None):
                mech, msg = 'exception', 'continued System -> %s, fresh System -> %s' % (ec_ or 'solved', eb_ or 'solved')
            elif c_ is not None and sc_ and sb_:
                for n in c_:
                    with np.errstate(all='ignore'):
                        e = float(np.nanmax(np.abs(c_[n] - b_[n])) / max(np.abs(b_[n]).max(), 1e-300)) if c_[n].shape == b_[n].shape else np.inf
                    if not e <= 1e-6:
                        mech, msg = n, '%s differs from a freshly built System with the same parameters (rel %.3g)' % (n, e)
                        break
            if mech is not None:
                if cont_diam_edit and derived:
                    ctx.violation('snapshot:continued-on-prism-sys:derived-potential-sigma-stale-after-diameter-edit',
                                  '%s: a sweep continued on PRISM.sys after a diameter edit: %s' % (where, msg))
                else:
                    ctx.violation('snapshot:continued-on-prism-sys-differs-from-fresh:%s' % mech, '%s: a sweep continued on the System carried by the previous PRISM object (PRISM.sys): %s' % (where, msg))
                    return
            out = out[:2]
        if follow:
            cont = nxt
            if cont is None:
                cont_diam_edit = False
        (a, sa, ea), (b, sb, eb) = out
        if (a is None) != (b is None):
            ctx.violation('snapshot:reused-system-differs-from-fresh:exception', '%s: reused System -> %s, fresh System -> %s' % (where, ea or 'solved', eb or 'solved'))
            return
        if a is None:
            continue
        ctx.count('sweep_converged', sa and sb)
        if not (sa and sb):
            # a non-converged iteration amplifies last-digit differences; the property is about results
            ctx.count('sweep_step_not_judged', 'one or both solves did not converge')
            continue
        ctx.hook('sweep.step_compared')
        compared += 1
        for n in a:
            if a[n].shape != b[n].shape:
                ctx.violation('snapshot:reused-system-differs-from-fresh:%s' % n, '%s: %s has shape %s on the reused System, %s on a fresh one' % (where, n, a[n].shape, b[n].shape))
                return
            sc = max(np.abs(b[n]).max(), 1e-300)
            with np.errstate(all='ignore'):
                e = float(np.nanmax(np.abs(a[n] - b[n])) / sc)
            ctx.observe('sweep_vs_fresh/1e-6', e / 1e-6)
            if not e <= 1e-6:
                ctx.violation('snapshot:reused-system-differs-from-fresh:%s' % n, '%s: %s of the re-used System differs from a freshly built System with the same parameters (rel %.3g)' % (where, n, e))
                return
        if step > 0:
            ctx.count('edit', steps[-1].split('=')[0].split('[')[0])
    if compared >= 3:
        ctx.nontrivial(case)
    ctx.sample({'sweep': steps}, limit=2)


def run_prism_sys_history(ctx, case):
    """wiring-level histories on the System a PRISM object carries (no solve needed): after every createPRISM on PRISM.sys the new object
    must be wired from what the user has specified by then - explicit sigmas (also one that EQUALS the number derived earlier) stay, sigmas
    never given follow the current diameters"""
    rng = np.random.default_rng(case['seed'])
    sp = G.easy_spec(rng, rank=int(case['rank']), L=64, dr=0.1)
    for key in sp['pot']:
        sp['pot'][key].pop('sigma', None)
    with np.errstate(all='ignore'):
        p = G.build(sp).createPRISM()
    check_wiring(ctx, p, sp, 'first object')
    hist = []
    for step in range(int(case['nsteps'])):
        s2 = p.sys
        types = sp['types']
        a, b = sorted([str(rng.choice(types)), str(rng.choice(types))])
        key = G.pk(a, b)
        kind = str(rng.choice(['sigma_equal', 'sigma_equal', 'sigma_other', 'diameter', 'diameter', 'new_potential', 'kT']))
        if kind.startswith('sigma'):
            cur = float(G.sigma_of(sp, a, b)) if sp['pot'][key].get('sigma') is None else float(sp['pot'][key]['sigma'])
            if s2.potential[a, b].sigma is None:
                ctx.violation('snapshot:prism-sys-potential-without-sigma', 'object %d: the potential of pair %s in PRISM.sys has no contact distance although the object was wired with one' % (step + 1, key))
                return
            v = float(s2.potential[a, b].sigma) if kind == 'sigma_equal' else float(round(cur + sp['dr'], 10))     # typed as the number currently in force / another one
            s2.potential[a, b].sigma = v
            sp['pot'][key] = dict(sp['pot'][key], sigma=v)
        elif kind == 'diameter':
            t = str(rng.choice(types))
            v = G.on_grid(rng, sp['dr'], 0.8, 1.6)
            s2.diameter[t] = v
            sp['d'][t] = v
        elif kind == 'new_potential':
            ps = G.gen_pot(rng, G.sigma_of(sp, a, b), allow=('HS', 'HCLJ', 'EXP'), strength=0.3)
            ps.pop('sigma', None)
            s2.potential[a, b] = G.mk_pot(ps)
            sp['pot'][key] = ps
        else:
            v = float(rng.choice([0.7, 1.0, 1.3, 2.0]))
            s2.kT = v
            sp['kT'] = v
        hist.append('%s[%s]' % (kind, key))
        ctx.hook('prism_sys_history.step')
        with np.errstate(all='ignore'):
            p = s2.createPRISM()
        before = len(ctx.violations)
        check_wiring(ctx, p, sp, 'object %d created on PRISM.sys after %s' % (step + 2, hist))
        if len(ctx.violations) > before:
            return
    ctx.nontrivial(case)


class ReentrantOmega(pyPRISM.omega.Gaussian):
    """a user's Omega subclass whose calculate() consults another, coarser PRISM problem first (e.g. to fit its own parameters):
    building a PRISM object inside the construction of another one must not disturb the outer one"""
    def calculate(self, k):
        inner = pyPRISM.System(['x'], kT=1.0)
        inner.domain = pyPRISM.Domain(length=32, dr=0.3)
        inner.density['x'] = 0.1
        inner.diameter['x'] = 0.9
        inner.potential['x', 'x'] = pyPRISM.potential.HardSphere()
        inner.closure['x', 'x'] = pyPRISM.closure.PercusYevick()
        inner.omega['x', 'x'] = pyPRISM.omega.Gaussian(sigma=0.9, length=5)
        inner.createPRISM()
        return pyPRISM.omega.Gaussian.calculate(self, k)


def run_reentrant(ctx, case):
    rng = np.random.default_rng(case['seed'])
    sp = G.easy_spec(rng, rank=int(case['rank']), L=64, dr=0.1)
    first = sp['types'][0]
    sp['om'][G.pk(first, first)] = {'t': 'G', 'N': int(rng.integers(2, 12)), 's': sp['d'][first]}
    for t in sp['types'][1:]:
        sp['om'][G.pk(t, t)] = {'t': str(rng.choice(['G', 'FJC'])), 'N': int(rng.integers(2, 12)), 's': sp['d'][t]}
    s = G.build(sp)
    os_ = sp['om'][G.pk(first, first)]
    s.omega[G.lab(sp, first), G.lab(sp, first)] = ReentrantOmega(sigma=os_['s'], length=os_['N'])
    ctx.hook('reentrant_construction')
    with np.errstate(all='ignore'):
        p = s.createPRISM()
    check_wiring(ctx, p, sp, 'System whose first omega builds another PRISM object on another Domain while it is evaluated')
    ctx.nontrivial(case)


def run_tutorial(ctx, case):
    """the maintainers' sweeps (one System re-specified step by step): every PRISM object is wired from the System's state at that
    moment, and creating / solving it leaves the System as it was"""
    st = {}

    def before_create(sp, s):
        st['digest'] = digest(s)

    def on_step(sp, s, p, res, label):
        ctx.hook('tutorial.step_judged')
        check_wiring(ctx, p, sp, label)
        if digest(s) != st['digest']:
            ctx.violation('snapshot:system-modified-by-createPRISM-or-solve', '%s: the System differs after createPRISM/solve: %s' % (label, 'digest changed'))
        ctx.count('tutorial', case['name'])
    nok, n = T.run(case['name'], on_step, before_create=before_create)
    ctx.count('tutorial_steps', '%s: %d of %d solved' % (case['name'], nok, n))
    if nok:
        ctx.nontrivial(['tutorial', case['name']])


def run_case(ctx, case):
    k = case['kind']
    if k == 'tutorial':
        return run_tutorial(ctx, case)
    if k == 'prism_sys_history':
        return run_prism_sys_history(ctx, case)
    if k == 'reentrant':
        return run_reentrant(ctx, case)
    if k == 'omit':
        return run_omit(ctx, case)
    if k == 'snapshot':
        return run_snapshot(ctx, case)
    if k == 'failpoint':
        return run_failpoint(ctx, case)
    if k == 'solve_failpoint':
        return run_solve_failpoint(ctx, case)
    return run_sweep(ctx, case)
