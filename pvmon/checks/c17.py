"""C17 - UnitConverter conversions agree with SI constants and dimensional analysis.

Monitor shape: post-condition contract on the six real conversion methods (wrapped on the class): the returned
pint Quantity is compared with the textbook formula evaluated from the exact 2019 SI constants (no pint), its
dimensionality is checked, and the workload adds linearity / elementwise probes.
"""
import math

import numpy as np

from pyPRISM.util.UnitConverter import UnitConverter

PID = 'C17'
RULE = ('cases = (dc in 1e-2..1e3 x unit nm|angstrom|m|um|pm, ec in 1e-3..1e3 x unit kJ/mol|kcal/mol|J/mol|J|eV|kJ/kmol|J/mmol|K*R|K*k_B|eV/particle|mJ, argument scalar, int, float array, integer array or read-only array '
        'with magnitudes over 6 decades); every case calls the six conversion methods under the contract and probes linearity and elementwise '
        'behaviour; non-trivial = all six methods returned and were compared; distinct = distinct case digests')
ASSUMPTIONS = ['exact SI: k_B=1.380649e-23 J/K, N_A=6.02214076e23 /mol, e=1.602176634e-19 C, thermochemical calorie 4.184 J',
               'pint is trusted only for the dimensionality test of the returned Quantity and for the unit string parsing of the constructor']
MINIMA = {'quick': {'uc.toKelvin': 100, 'uc.toCelcius': 100, 'uc.toInvAngstrom': 100, 'uc.toInvNanometer': 100, 'uc.toConcentration': 100, 'uc.toVolumeFraction': 100, 'linearity_probe': 100},
          'thorough': {'uc.toKelvin': 3000, 'uc.toCelcius': 3000, 'uc.toInvAngstrom': 3000, 'uc.toInvNanometer': 3000, 'uc.toConcentration': 3000, 'uc.toVolumeFraction': 3000, 'linearity_probe': 3000}}
SHARDS = {'quick': 4, 'thorough': 16}
TIME_BUDGET = {'quick': 40, 'thorough': 200}

KB = 1.380649e-23
NA = 6.02214076e23
LEN = {'nanometer': 1e-9, 'angstrom': 1e-10, 'meter': 1.0, 'micrometer': 1e-6, 'picometer': 1e-12, 'nm': 1e-9}
ENERGY = {'kilojoule/mole': (1e3, True), 'kilocalorie/mole': (4184.0, True), 'joule/mole': (1.0, True), 'joule': (1.0, False),
          'eV': (1.602176634e-19, False), 'kJ/mol': (1e3, True),
          # other legal spellings of a molar / per-particle energy
          'kJ/kmol': (1.0, True), 'J/mmol': (1e3, True), 'kJ mol^-1': (1e3, True), 'kelvin*molar_gas_constant': (KB * NA, True),
          'kelvin*boltzmann_constant': (KB, False), 'eV/particle': (1.602176634e-19, False), 'millijoule': (1e-3, False)}
RTOL = 1e-9
REDUCED = 'mc*dc**2/ps**2'
PARAMS = {'toVolumeFraction': ('density', 'diameter'), 'toConcentration': ('density',), 'toKelvin': ('temperature',), 'toCelcius': ('temperature',), 'toInvAngstrom': ('wavenumber',), 'toInvNanometer': ('wavenumber',)}
# the dalton is a MEASURED constant (not fixed by the 2019 SI): its value is taken from the unit library itself (trusted base)
import pint as _pint
DALTON = float(_pint.UnitRegistry()('dalton').to('kilogram').magnitude)
MASS = {'gram/mole': (1e-3, True), 'dalton': (DALTON, False), 'kilogram': (1.0, False), 'kg/mol': (1.0, True), 'g/mol': (1e-3, True)}
_S = {'ctx': None, 'cfg': {}}
METHODS = ['toKelvin', 'toCelcius', 'toInvAngstrom', 'toInvNanometer', 'toConcentration', 'toVolumeFraction']


def expected(name, cfg, args):
    dc_m = cfg['dc'] * LEN[cfg['dc_unit']]
    if cfg['ec_unit'] == REDUCED:
        # the Lennard-Jones way of writing the energy unit: e_c = m_c d_c^2 / tau^2 in the converter's own reduced units
        mf, mmolar = MASS[cfg.get('mc_unit', 'gram/mole')]
        f, molar = cfg.get('mc', 14.02) * mf * dc_m ** 2 / 1e-24, mmolar
    else:
        f, molar = ENERGY[cfg['ec_unit']]
    e_J = cfg['ec'] * f / (NA if molar else 1.0)
    x = np.asarray(args[0], dtype=float)
    if name == 'toKelvin':
        return x * e_J / KB, '[temperature]'
    if name == 'toCelcius':
        return x * e_J / KB - 273.15, '[temperature]'
    if name == 'toInvAngstrom':
        return x / (dc_m / 1e-10), '1 / [length]'
    if name == 'toInvNanometer':
        return x / (dc_m / 1e-9), '1 / [length]'
    if name == 'toConcentration':
        return x / (dc_m ** 3) / NA / 1e3, '[substance] / [length] ** 3'
    if name == 'toVolumeFraction':
        return x * math.pi * np.asarray(args[1], dtype=float) ** 3 / 6.0, 'dimensionless'
    raise KeyError(name)


def contract(self, name, args, res):
    ctx = _S['ctx']
    cfg = _S['cfg'].get(id(self))
    if cfg is None:
        return
    ctx.hook('uc.' + name)
    ref, dim = expected(name, cfg, args)
    mag = getattr(res, 'magnitude', None)
    if mag is None or not hasattr(res, 'dimensionality'):
        ctx.violation('uc:%s-not-a-quantity' % name, '%s returned %r, not a pint Quantity' % (name, type(res).__name__))
        return
    got_dim = str(res.dimensionality)
    if got_dim != dim:
        ctx.violation('uc:%s-dimensionality' % name, '%s returned a quantity of dimensionality %s, expected %s' % (name, got_dim, dim))
    # the magnitude is read in the documented unit of the method (a right number in a wrong unit is wrong)
    unit = {'toKelvin': 'kelvin', 'toCelcius': 'degC', 'toInvAngstrom': '1/angstrom', 'toInvNanometer': '1/nanometer',
            'toConcentration': 'mol/L', 'toVolumeFraction': 'dimensionless'}[name]
    try:
        mag = res.to(unit).magnitude
    except Exception as e:   # noqa
        ctx.violation('uc:%s-unit' % name, '%s returned %s which cannot be expressed in %s' % (name, res.units, unit))
        return
    mag = np.asarray(mag, dtype=float)
    # ... and the number the user reads with .magnitude must be that very number (the docstrings tell users to read .magnitude)
    raw = np.asarray(res.magnitude, dtype=float)
    if raw.shape == mag.shape and not np.allclose(raw, mag, rtol=1e-9, atol=1e-9 * (273.15 if name == 'toCelcius' else 0.0)):
        ctx.violation('uc:%s-unit' % name, '%s returns its value in %s, the documented unit is %s (.magnitude is off by the unit factor)' % (name, res.units, unit))
        return
    if mag.shape != np.shape(ref):
        ctx.violation('uc:%s-shape' % name, '%s returned shape %s for an argument of shape %s' % (name, mag.shape, np.shape(ref)))
        return
    scale = np.abs(ref) + (273.15 if name == 'toCelcius' else 0.0)
    err = np.max(np.abs(mag - ref) / np.maximum(scale, 1e-300)) if mag.size else 0.0
    ctx.observe('uc_vs_SI/1e-9', err / RTOL)
    if not err <= RTOL:
        ctx.violation('uc:%s-value' % name, '%s(%s) with dc=%r %s, ec=%r %s gives %r, SI formula gives %r (rel err %.3g)' % (
            name, ', '.join(repr(a) if np.ndim(a) == 0 else 'array' for a in args), cfg['dc'], cfg['dc_unit'], cfg['ec'], cfg['ec_unit'],
            mag.ravel()[:3].tolist(), np.ravel(ref)[:3].tolist(), err))


def setup(ctx):
    _S['ctx'] = ctx
    if getattr(UnitConverter, '_pvmon_wrapped', False):
        return
    for name in METHODS:
        orig = UnitConverter.__dict__[name]

        def make(orig, name):
            def method(self, *args, **kw):
                if kw:
                    # documented parameter names
                    names = {'toVolumeFraction': ('density', 'diameter'), 'toConcentration': ('density',), 'toKelvin': ('temperature',), 'toCelcius': ('temperature',),
                             'toInvAngstrom': ('wavenumber',), 'toInvNanometer': ('wavenumber',)}[name]
                    res = orig(self, *args, **kw)
                    contract(self, name, tuple(args) + tuple(kw[n] for n in names[len(args):]), res)
                    return res
                res = orig(self, *args)
                if _S['ctx'] is not None:
                    contract(self, name, args, res)
                return res
            return method
        setattr(UnitConverter, name, make(orig, name))
    UnitConverter._pvmon_wrapped = True


def cases(ctx):
    rng = ctx.rng('c17')
    n = ctx.budget(240, 6000)
    for it in range(n):
        yield {'dc': float(10 ** rng.uniform(-2, 3)) if rng.random() < 0.8 else 1.0, 'dc_unit': str(rng.choice(['nanometer', 'angstrom', 'meter', 'micrometer', 'picometer', 'nm'])),
               'ec': float(10 ** rng.uniform(-3, 3)) if rng.random() < 0.8 else 2.48, 'ec_unit': str(rng.choice(list(ENERGY))),
               'arg': str(rng.choice(['scalar', 'array', 'array', 'int', 'readonly', 'broadcast', 'intarray'])), 'seed': int(rng.integers(0, 2 ** 31))}


_cache = {}


def run_case(ctx, case):
    rng = np.random.default_rng(case['seed'])
    key = (case['dc'], case['dc_unit'], case['ec'], case['ec_unit'])
    cfg = {'dc': case['dc'], 'dc_unit': case['dc_unit'], 'ec': case['ec'], 'ec_unit': case['ec_unit']}
    wrap = {0: float, 1: np.float64, 2: np.float32}[case['seed'] % 3] if case['seed'] % 5 == 0 else float       # characteristic values computed with numpy
    dcv, ecv = wrap(case['dc']), wrap(case['ec'])
    cfg['dc'], cfg['ec'] = float(dcv), float(ecv)
    # the class is looked up the way a user's script does, anew for every converter (attribute of the package, or a from-import)
    try:
        if case['seed'] % 2:
            import pyPRISM.util
            cls = pyPRISM.util.UnitConverter
        else:
            from pyPRISM.util import UnitConverter as cls
        ctx.hook('uc.class_lookup')
        mc_unit = list(MASS)[case['seed'] // 7 % len(MASS)]
        mcv = [14.02, 1.0, 72.0][case['seed'] // 3 % 3]
        ec_unit = case['ec_unit'] if case['seed'] % 6 else REDUCED
        cfg.update(mc=mcv, mc_unit=mc_unit, ec_unit=ec_unit)
        if case['seed'] % 4 == 0 and ec_unit != REDUCED:
            uc = cls(dc=dcv, dc_unit=case['dc_unit'], ec=ecv, ec_unit=ec_unit)                       # characteristic mass left at its default
            cfg.update(mc=14.02, mc_unit='gram/mole')
        else:
            uc = cls(dc=dcv, dc_unit=case['dc_unit'], mc=mcv, mc_unit=mc_unit, ec=ecv, ec_unit=ec_unit)
        ctx.count('mc_unit', cfg['mc_unit'])
    except Exception as e:   # noqa - valid characteristic values: a converter must be obtainable every time
        ctx.violation('uc:constructor-raises', 'pyPRISM.util.UnitConverter(dc=%r %s, mc=%r %s, ec=%r %s) raises %s: %s' % (dcv, case['dc_unit'], cfg.get('mc'), cfg.get('mc_unit'), ecv, cfg.get('ec_unit'), type(e).__name__, str(e)[:120]))
        return
    if type(uc) is not UnitConverter:
        ctx.violation('uc:constructor-returns-other-class', 'pyPRISM.util.UnitConverter is not the documented class (%r)' % type(uc))
        return
    _S['cfg'] = {id(uc): cfg}
    if case['arg'] == 'scalar':
        x = float(10 ** rng.uniform(-3, 3))
        if case['seed'] % 5 == 0:
            x = [0.0, 0, -0.0, -1.5][case['seed'] // 5 % 4]          # a pure-component end point (zero density), 0 K, a negative reduced value
    elif case['arg'] == 'int':
        x = int(rng.integers(1, 50))
    elif case['arg'] == 'intarray':
        x = rng.integers(1, 50, size=int(rng.integers(1, 20)))
    elif case['arg'] == 'broadcast':
        x = np.broadcast_to(np.array([float(10 ** rng.uniform(-3, 3))]), (int(rng.integers(2, 10)),))      # read-only view
    else:
        x = 10 ** rng.uniform(-3, 3, size=int(rng.integers(1, 40)))
        if case['arg'] == 'readonly':
            x.flags.writeable = False
    d = float(rng.uniform(0.3, 3.0))
    dk = str(rng.choice(['float', 'float', 'int', 'npscalar', 'per_element', 'column', 'array_vs_scalar']))
    if dk == 'int':
        d = int(rng.integers(1, 4))
    elif dk == 'npscalar':
        d = np.float64(d)
    elif dk == 'per_element' and isinstance(x, np.ndarray):
        d = rng.uniform(0.3, 3.0, size=x.shape)                      # one diameter per site type, next to one density per site type
    elif dk == 'column' and isinstance(x, np.ndarray):
        d = rng.uniform(0.3, 3.0, size=(int(rng.integers(2, 5)), 1))   # a diameter column broadcast against a density row
    elif dk == 'array_vs_scalar' and not isinstance(x, np.ndarray):
        d = rng.uniform(0.3, 3.0, size=int(rng.integers(2, 6)))
    else:
        dk = 'float'
    ctx.count('diameter_arg', dk)
    done = 0
    results = {}
    for name in METHODS:
        args = (x, d) if name == 'toVolumeFraction' else (x,)
        before = ctx.hooks.get('uc.' + name, 0)
        try:
            x_before = np.array(x, copy=True) if isinstance(x, np.ndarray) else x
            if case['seed'] % 3 == 1:
                # called with the documented parameter names
                pn = PARAMS[name]
                results[name] = getattr(uc, name)(**dict(zip(pn, args))) if case['seed'] % 2 else getattr(uc, name)(args[0], **dict(zip(pn[1:], args[1:])))
                ctx.hook('keyword_call')
            else:
                results[name] = getattr(uc, name)(*args)
            done += 1
            if isinstance(x, np.ndarray) and not np.array_equal(x, x_before):
                ctx.violation('uc:%s-modifies-argument' % name, '%s changed the array it was given' % name)
        except Exception as e:   # noqa - "none raises for valid numeric input"
            ctx.violation('uc:%s-raises' % name, '%s(%s) raises %s: %s' % (name, 'array' if isinstance(x, np.ndarray) else repr(x), type(e).__name__, str(e)[:150]))
    # ---- linearity (affine for Celsius) and elementwise behaviour
    ctx.hook('linearity_probe')
    a = float(rng.uniform(0.5, 3.0))
    for name in METHODS:
        if name not in results:
            continue
        args2 = (a * np.asarray(x, dtype=float), d) if name == 'toVolumeFraction' else (a * np.asarray(x, dtype=float),)
        try:
            r2 = np.asarray(getattr(uc, name)(*args2).magnitude, dtype=float)
        except Exception:
            continue        # already reported above
        r1 = np.asarray(results[name].magnitude, dtype=float)
        off = 273.15 if name == 'toCelcius' else 0.0
        if not np.allclose(r2 + off, a * (r1 + off), rtol=1e-10, atol=1e-10 * off * (1 + a)):
            ctx.violation('uc:%s-not-linear' % name, '%s is not %s in its argument' % (name, 'affine' if off else 'linear'))
        if isinstance(x, np.ndarray) and len(x) > 1:
            i = int(rng.integers(0, len(x)))
            di = d if np.ndim(d) == 0 else (float(d[i]) if np.shape(d) == x.shape else float(np.asarray(d).ravel()[0]))
            args3 = (float(x[i]), di) if name == 'toVolumeFraction' else (float(x[i]),)
            try:
                r3 = float(np.asarray(getattr(uc, name)(*args3).magnitude))
            except Exception:
                continue
            r1i = r1[i] if r1.ndim == 1 else r1[0, i]
            if not np.isclose(r3, r1i, rtol=1e-10, atol=1e-10 * off):
                ctx.violation('uc:%s-not-elementwise' % name, '%s on an array differs from the scalar call for the same element' % name)
    if done == len(METHODS):
        ctx.nontrivial(case)
    ctx.count('dc_unit', case['dc_unit'])
    ctx.count('ec_unit', case['ec_unit'])
    ctx.count('arg', case['arg'])
    ctx.sample({'converter': cfg, 'arg': x if not isinstance(x, np.ndarray) else x[:3], 'diameter': np.asarray(d).ravel()[:3].tolist(),
                'results': {k: (np.asarray(v.magnitude).ravel()[:2].tolist(), str(v.units)) for k, v in results.items()}}, limit=3)
