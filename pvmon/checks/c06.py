"""C06 - Post-processing is history independent and never corrupts the solved object.

Monitor shape: history + reference object.  A solved PRISM object is driven through a call history over
{11 calculate calls (all flags), user transforms of totalCorr/directCorr/omega, re-solve from its own
solution}.  Around every operation the monitor records the (space(H), space(C), space(Omega)) state and
digests of the three arrays and checks
 (1) the returned value equals the value obtained on a fresh, identically solved object,
 (2) frame condition: each stored array is afterwards either bit-identical or the reference transform of
     its previous content with the flag flipped - nothing else,
 (3) no exception,
 (4) after solve the stored arrays are those of the returned root (a fresh object evaluated at
     minimize_result.x reproduces them and minimize_result.fun).
A write-protected replica (omega read-only) supplies file:line when (2) fails for omega.
"""
import copy
import itertools
import traceback
import warnings

import numpy as np

import pyPRISM
from pyPRISM.core.MatrixArray import MatrixArray
from pyPRISM.core.PairTable import PairTable
from pyPRISM.core.Space import Space

from .. import core
from .. import refmodel as R
from .. import gen as G
from .. import tutorials as T

PID = 'C06'
RULE = ('cases = call histories on one solved object (2- and 3-component systems, two solver configurations): systematic part = every '
        '(space state in 8, operation in 15) pair reached through a shortest transform prefix; random part = histories of length <= 8 quick / <= 16 thorough, 30 % of them interleaved with operations on a second live object of the same System; '
        'non-trivial = history containing at least one in-place transform of a stored array (explicit or by a calculate function) followed by a compared '
        'value; distinct = distinct (system, solver, history) digests')
ASSUMPTIONS = ['a deep copy of a solved object stands for a fresh identically solved object (verified once per system: an independent second solve is bit-identical)',
               'values compared with rtol 1e-7 of the array scale (1e-5 after a re-solve, which may move the root within the solver tolerance); pmf compared where g_ref > 1e-3',
               're-solve only while omega is in Fourier space, as the quantifier says']
MINIMA = {'quick': {'op.calc': 600, 'op.flip': 150, 'op.resolve': 30, 'value_compare': 600, 'frame_condition': 800, 'solve_state_check': 30, 'solve_state_check': 30},
          'thorough': {'op.calc': 20000, 'op.flip': 5000, 'op.resolve': 1000, 'value_compare': 20000, 'frame_condition': 25000, 'solve_state_check': 1000}}
SHARDS = {'quick': 8, 'thorough': 16}
TIME_BUDGET = {'quick': 50, 'thorough': 280}

CALC = {'g': ('pair_correlation', {}), 'S': ('structure_factor', {}), 'Sn': ('structure_factor', {'normalize': False}), 'pmf': ('pmf', {}),
        'B2': ('second_virial', {}), 'B2n': ('second_virial', {'extrapolate': False}), 'chi': ('chi', {}), 'chik': ('chi', {'extrapolate': False}),
        'spin': ('spinodal_condition', {}), 'psiH': ('solvation_potential', {}), 'psiP': ('solvation_potential', {'closure': 'PY'})}
FLIPS = {'flipH': 'totalCorr', 'flipC': 'directCorr', 'flipW': 'omega'}
OPS = list(CALC) + list(FLIPS) + ['resolve']
SOLVERS = {'wolfe': ('krylov', {'line_search': 'wolfe', 'fatol': 1e-11, 'maxiter': 200}),
           'armijo': ('krylov', {'fatol': 1e-11, 'maxiter': 200}),
           'anderson': ('anderson', {'fatol': 1e-11, 'maxiter': 1500})}
ERRSTATES = [dict(all='ignore'), dict(all='warn'), dict(divide='ignore', over='warn', under='ignore', invalid='ignore'), dict(divide='warn', over='ignore', under='ignore', invalid='warn')]
_cache = {}
LEGAL_PAIRS = 8 * 15 - 4      # resolve is not legal in the 4 states with omega in real space


def evidence_extra(merged):
    pairs = merged['hist'].get('state_op', {})
    return {'states': len(set(k.split('/')[0] for k in pairs)), 'transitions': len(pairs), 'legal_state_operation_pairs': LEGAL_PAIRS,
            'state_operation_pairs_covered': sorted(pairs)}


def inconclusive(merged, tier):
    pairs = merged['hist'].get('state_op', {})
    need = LEGAL_PAIRS if tier == 'thorough' else 100
    return [] if len(pairs) >= need else ['state_operation_pairs=%d<%d' % (len(pairs), need)]


_good = {}


def base_specs(seed):
    """a few deterministic systems per seed (rank 2,3,2,3; mixed potentials, short chains): the first candidates on
    which both Krylov configurations converge (selection is part of the workload generation, not of the verdict)"""
    if seed in _good:
        return _good[seed]
    out = []
    rng = np.random.default_rng([seed, 606])
    want = [2, 3, 2, 3]
    tries = 0
    while len(out) < len(want) and tries < 40:
        tries += 1
        sp = G.easy_spec(rng, rank=want[len(out)], L=128, dr=0.1, eta_max=0.18)
        sp['labels'] = G.choose_labels(rng, sp['types'])
        sp['via'] = str(rng.choice(G.VIAS))
        ok = True
        for solver in ('wolfe', 'armijo'):
            method, opts = SOLVERS[solver]
            res = G.solve(G.build(sp).createPRISM(), method, dict(opts, maxiter=60))
            if res is None or not res.success:
                ok = False
                break
        if ok:
            out.append(sp)
    if len(out) < 2:
        raise core.HarnessError('C06: fewer than two base systems converge')
    # two of the maintainers' own systems (tutorial NB7 copolymer solution with tabulated form factors; documentation quick-start)
    for sp in (T.copolymer_spec('2'), T.quickstart_spec()):
        ok = True
        for solver in ('wolfe', 'armijo'):
            method, opts = SOLVERS[solver]
            res = G.solve(G.build(sp).createPRISM(), method, dict(opts, maxiter=60))
            if res is None or not res.success:
                ok = False
                break
        if ok:
            out.append(sp)
    _good[seed] = out
    return out


def val(x, types):
    if isinstance(x, MatrixArray):
        return np.array(x.data, copy=True)
    if isinstance(x, PairTable):
        return {(a, b): (None if x[a, b] is None else np.array(x[a, b], copy=True)) for a in types for b in types}
    return x


def solved(ctx, spec_id, solver):
    key = (ctx.seed, spec_id, solver)
    if key in _cache:
        return _cache[key]
    sp = base_specs(ctx.seed)[spec_id]
    method, opts = SOLVERS[solver]
    objs = []
    for rep in range(2):
        p = G.build(sp).createPRISM()
        res = G.solve(p, method, opts)
        if res is None or not res.success:
            _cache[key] = None
            return None
        objs.append(p)
    a, b = objs
    check_root_state(ctx, a, sp, 'initial solve of system %d with %s' % (spec_id, solver))
    same = all(np.array_equal(getattr(a, n).data, getattr(b, n).data) and getattr(a, n).space == getattr(b, n).space for n in ('totalCorr', 'directCorr', 'omega'))
    if not same:
        ctx.violation('hist:solve-not-deterministic', 'two identical solves of the same system left different arrays on the object')
    refs = {}
    for op, (fn, kw) in CALC.items():
        q = copy.deepcopy(a)
        with np.errstate(all='ignore'):
            refs[op] = val(getattr(pyPRISM.calculate, fn)(q, **kw), [G.lab(sp, t) for t in sp['types']])
    q = copy.deepcopy(a)
    gref = np.asarray(pyPRISM.calculate.pair_correlation(q).data)
    _cache[key] = (sp, a, refs, gref > 1e-3)
    return _cache[key]


def state_of(p):
    return tuple(getattr(p, n).space.name[0] for n in ('totalCorr', 'directCorr', 'omega'))


def capture(p):
    return {n: (np.array(getattr(p, n).data, copy=True), getattr(p, n).space) for n in ('totalCorr', 'directCorr', 'omega')}


def cases(ctx):
    rng = ctx.rng('c06')
    nspec = len(base_specs(ctx.seed))
    solvers = ['wolfe', 'armijo'] if not ctx.thorough() else ['wolfe', 'armijo', 'anderson']
    # systematic: every (state, op) pair through a shortest flip prefix
    idx = 0
    for spec_id in range(nspec if ctx.thorough() else 2):
        for solver in solvers[:2] if ctx.thorough() else solvers[:1 + spec_id % 2]:
            for mask in range(8):
                prefix = [f for b, f in enumerate(['flipH', 'flipC', 'flipW']) if mask >> b & 1]
                for op in OPS:
                    idx += 1
                    if ctx.mine(idx):
                        yield {'spec': spec_id, 'solver': solver, 'history': prefix + [op] + (['S', 'g'] if op in FLIPS or op == 'resolve' else []), 'systematic': True}
    for it in range(ctx.budget(24, 400)):
        # solves that do NOT converge (iteration / evaluation cap): the arrays left on the object are still those of the returned x
        yield {'kind': 'failed_solve', 'spec': int(rng.integers(0, min(nspec, 4))), 'how': int(rng.integers(0, 5)), 'seed': int(rng.integers(0, 2 ** 31))}
    n = ctx.budget(480, 6400)
    maxlen = 16 if ctx.thorough() else 8
    for it in range(n):
        h = []
        for _ in range(int(rng.integers(2, maxlen + 1))):
            h.append(str(rng.choice(OPS)) if rng.random() < 0.75 else str(rng.choice(list(FLIPS) + ['resolve'])))
        yield {'spec': int(rng.integers(0, nspec)), 'solver': str(rng.choice(solvers)), 'history': h, 'systematic': False, 'twin': bool(rng.random() < 0.3)}


def compare_value(ctx, op, got, ref, gmask, rtol, where):
    ctx.hook('value_compare')

    def close(a, b, mask=None):
        a, b = np.asarray(a, dtype=float), np.asarray(b, dtype=float)
        if a.shape != b.shape:
            return False, np.inf
        with np.errstate(all='ignore'):
            sc = np.nanmax(np.abs(np.where(np.isfinite(b), b, 0))) if b.size else 0
            err = np.abs(a - b)
            ok = (err <= rtol * max(sc, 1e-300) + 1e-12) | (np.isnan(a) & np.isnan(b)) | (a == b)
            if mask is not None:
                ok = ok | ~mask
            e = float(np.nanmax(np.where(ok, 0, err))) / max(sc, 1e-300)
        return bool(ok.all()), e
    if isinstance(ref, dict):
        for key, rv in ref.items():
            gv = got.get(key) if isinstance(got, dict) else None
            if rv is None and gv is None:
                continue
            if (rv is None) != (gv is None):
                return False, np.inf
            ok, e = close(gv, rv)
            if not ok:
                return False, e
        return True, 0.0
    return close(got, ref, gmask if op == 'pmf' else None)


FAILING = [('hybr', {'maxfev': 7}), ('krylov', {'line_search': 'wolfe', 'maxiter': 2}), ('lm', {'maxiter': 4}), ('anderson', {'maxiter': 2}), ('krylov', {'maxiter': 1})]


def run_failed_solve(ctx, case):
    sp = base_specs(ctx.seed)[int(case['spec'])]
    method, opts = FAILING[int(case['how'])]
    rng = np.random.default_rng(case['seed'])
    p = G.build(sp).createPRISM()
    guess = rng.normal(size=sp['L'] * len(sp['types']) ** 2) * 0.05
    try:
        with np.errstate(all='ignore'), warnings.catch_warnings():
            warnings.simplefilter('ignore')
            res = p.solve(guess=np.array(guess), method=method, options=dict(opts))
    except G.SOLVE_ERRORS:
        raise core.Skip('solver raised on the trial vector')
    ctx.count('capped_solve', '%s%s -> %s' % (method, sorted(opts), 'converged' if res.success else 'not converged'))
    ctx.hook('op.capped_solve')
    check_root_state(ctx, p, sp, 'solve(method=%r, options=%r) that %s' % (method, opts, 'converged' if res.success else 'did not converge'))
    if not res.success:
        ctx.nontrivial(['failed_solve', case['spec'], case['how'], case['seed']])


def run_case(ctx, case):
    if case.get('kind') == 'failed_solve':
        return run_failed_solve(ctx, case)
    pack = solved(ctx, int(case['spec']), case['solver'])
    if pack is None:
        raise core.Skip('base solve did not converge')
    sp, pristine, refs, gmask = pack
    types = [G.lab(sp, t) for t in sp['types']]
    dr = sp['dr']
    p = copy.deepcopy(pristine)
    method, opts = SOLVERS[case['solver']]
    transformed = False
    compared_after_transform = False
    resolved = False
    twin = copy.deepcopy(pristine) if case.get('twin') else None
    trng = np.random.default_rng(len(case['history']))
    for step, op in enumerate(case['history']):
        if twin is not None:
            # another object of the same kind is being post-processed in between: nothing may leak from one object to the other
            top = OPS[int(trng.integers(0, len(OPS) - 1))]
            try:
                with np.errstate(all='ignore'):
                    if top in CALC:
                        getattr(pyPRISM.calculate, CALC[top][0])(twin, **CALC[top][1])
                    else:
                        mm = getattr(twin, FLIPS[top])
                        (twin.sys.domain.MatrixArray_to_fourier if mm.space == Space.Real else twin.sys.domain.MatrixArray_to_real)(mm)
                ctx.hook('twin_object_operation')
            except Exception:   # noqa - the twin's own problems are reported by histories in which it is the subject
                pass
        before = capture(p)
        st = state_of(p)
        where = 'history %s step %d (%s) in state H=%s C=%s W=%s' % (case['history'], step, op, *st)
        if op == 'resolve' and p.omega.space != Space.Fourier:
            ctx.count('skipped_op', 'resolve-with-omega-in-real-space')
            continue
        ctx.count('state_op', '%s%s%s/%s' % (st[0], st[1], st[2], op))
        try:
            # the user's own error-state setting varies from history to history ('raise' would turn the NaNs the functions
            # legitimately produce, e.g. log of a negative argument, into exceptions, so only 'ignore' and 'warn' settings are used)
            with np.errstate(**ERRSTATES[(len(case['history']) + step) % len(ERRSTATES)]), warnings.catch_warnings():
                warnings.simplefilter('ignore')
                errstate_inside = np.geterr()
                np.set_printoptions(precision=8 - (step % 2))          # the user's own settings vary, so that a call which sets its own is seen
                np.random.random()          # advance the process-wide generator, so that a re-seeding inside the call cannot restore the same state
                glob_before = (np.get_printoptions(), hash(np.random.get_state()[1].tobytes()), tuple(warnings.filters[:3]))
                if op in CALC:
                    ctx.hook('op.calc')
                    fn, kw = CALC[op]
                    got = val(getattr(pyPRISM.calculate, fn)(p, **kw), types)
                elif op in FLIPS:
                    ctx.hook('op.flip')
                    m = getattr(p, FLIPS[op])
                    (p.sys.domain.MatrixArray_to_fourier if m.space == Space.Real else p.sys.domain.MatrixArray_to_real)(m)
                else:
                    ctx.hook('op.resolve')
                    # the guess is either a copy or the very array the object / the previous result holds (guess=PRISM.x, guess=result.x)
                    gsel = (len(case['history']) + step) % 3
                    garr = np.array(p.minimize_result.x) if gsel == 0 else (p.x if gsel == 1 else p.minimize_result.x)
                    gkeep = np.array(garr, copy=True)
                    res = G.solve(p, method, dict(opts, maxiter=1) if gsel == 2 and (step % 2) else dict(opts), guess=garr)
                    if not np.array_equal(np.asarray(garr), gkeep, equal_nan=True):
                        ctx.violation('hist:solve-overwrites-the-guess-array', '%s: solve(guess=%s) changed the array it was given as initial guess (max change %.3g): the re-solve did not start from the solution' % (
                            where, ['a copy of the solution', 'PRISM.x', 'minimize_result.x'][gsel], float(np.abs(np.asarray(garr) - gkeep).max())))
                        return
                    if res is None or (not res.success and not (gsel == 2 and step % 2)):
                        raise core.Skip('re-solve from own solution did not converge')
                    resolved = True
                errstate_after = np.geterr()
                glob_after = (np.get_printoptions(), hash(np.random.get_state()[1].tobytes()), tuple(warnings.filters[:3]))
        except core.Skip:
            raise
        except Exception as e:   # noqa
            fs = core.innermost_repo_frame(e.__traceback__)
            if fs is None:
                raise
            ctx.violation('hist:%s-raises-%s:in-state-%s%s%s' % (op, type(e).__name__, *st),
                          '%s raised %s: %s (at %s:%d %s)' % (where, type(e).__name__, str(e)[:120], fs.filename.split('/')[-1], fs.lineno, fs.line))
            return
        after = capture(p)
        # ---- (0) nothing outside the object: numpy's global floating-point error state is the caller's, a post-processing call returns it as found
        ctx.hook('global_fp_state_check')
        if errstate_after != errstate_inside:
            ctx.violation('hist:%s-changes-numpy-error-state' % (CALC[op][0] if op in CALC else op), '%s: numpy error state was %r before the call and is %r after it' % (where, errstate_inside, errstate_after))
            return
        if op != 'resolve' and glob_after != glob_before:
            which = [n for n, a, b in zip(('numpy print options', 'numpy global random state', 'warnings filters'), glob_before, glob_after) if a != b]
            ctx.violation('hist:%s-changes-global-state' % (CALC[op][0] if op in CALC else op), '%s: the call changed process-wide state it does not own: %s' % (where, ', '.join(which)))
            return
        # ---- (0b) the documented attribute PRISM.pairCorr, once it exists, is g(r) of the solved state
        pc = getattr(p, 'pairCorr', None)
        if pc is not None and not resolved:
            ctx.hook('paircorr_attribute_check')
            ok_pc = np.shape(pc.data) == np.shape(refs['g']) and np.allclose(np.asarray(pc.data), refs['g'], rtol=1e-7, atol=1e-7 * max(np.abs(refs['g']).max(), 1.0))
            if not ok_pc:
                ctx.violation('hist:%s-corrupts-pairCorr-attribute' % (CALC[op][0] if op in CALC else op), '%s: PRISM.pairCorr no longer holds g(r) of the solved object' % where)
                return
        # ---- (1) value equals that of a fresh identically solved object
        if op in CALC:
            rtol = 1e-5 if resolved else 1e-7
            ok, e = compare_value(ctx, op, got, refs[op], gmask, rtol, where)
            ctx.observe('value_vs_fresh/rtol', e / rtol)
            if transformed:
                compared_after_transform = True
            if not ok:
                prior = [h for h in case['history'][:step] if h not in FLIPS]
                ctx.violation('hist:%s-depends-on-history' % CALC[op][0], '%s: value differs from the one a fresh identically solved object returns (rel err %.3g)' % (where, e))
                return
        # ---- (2) frame condition
        if op != 'resolve':
            ctx.hook('frame_condition')
            for name in ('totalCorr', 'directCorr', 'omega'):
                (d0, s0), (d1, s1) = before[name], after[name]
                if s0 == s1:
                    if d0.shape != d1.shape or not np.array_equal(d0, d1, equal_nan=True):
                        msg = '%s: %s stayed in %s space but its data changed (rel %.3g)' % (where, name, s0.name, float(np.abs(d1 - d0).max() / max(np.abs(d0).max(), 1e-300)) if d0.shape == d1.shape else np.inf)
                        if name == 'omega':
                            msg += locate_writer(p, pristine, case, step)
                        ctx.violation('hist:%s-modifies-%s-in-place' % (CALC[op][0] if op in CALC else op, name), msg)
                        return
                else:
                    transformed = True
                    ref = R.to_fourier(d0, dr) if s1 == Space.Fourier else R.to_real(d0, dr)
                    sc = max(np.abs(ref).max(), 1e-300)
                    e = float(np.abs(d1 - ref).max() / sc)
                    ctx.observe('frame_transform/1e-9', e / 1e-9)
                    if not e <= 1e-9:
                        ctx.violation('hist:%s-leaves-%s-neither-unchanged-nor-transformed' % (CALC[op][0] if op in CALC else op, name),
                                      '%s: %s changed space %s -> %s but its data is not the transform of the previous content (rel err %.3g)' % (where, name, s0.name, s1.name, e))
                        return
        else:
            # ---- (4) stored arrays are those of the returned root
            check_root_state(ctx, p, sp, where)
    if compared_after_transform:
        ctx.nontrivial([case['spec'], case['solver'], case['history']])
    ctx.count('history_len', len(case['history']))
    ctx.count('system', '%s L=%d' % (G.spec_signature(sp), sp['L']))
    ctx.sample({'system': G.spec_signature(sp), 'solver': case['solver'], 'history': case['history']}, limit=4)


def check_root_state(ctx, p, sp, where):
    """after solve: a fresh object evaluated at minimize_result.x reproduces the stored arrays and .fun"""
    ctx.hook('solve_state_check')
    res = p.minimize_result
    q = G.build(sp).createPRISM()
    with np.errstate(all='ignore'):
        y = q.cost(np.array(res.x))
    scale = max(np.abs(res.fun).max(), 1e-14)
    if p.totalCorr.space != Space.Real:
        ctx.violation('hist:solve-leaves-totalCorr-in-fourier', '%s: totalCorr is not in real space after solve' % where)
        return
    pairs = (('directCorr', np.asarray(p.directCorr.data), np.asarray(q.directCorr.data)),
             ('totalCorr', np.asarray(p.totalCorr.data), R.to_real(np.asarray(q.totalCorr.data), sp['dr']) if q.totalCorr.space == Space.Fourier else np.asarray(q.totalCorr.data)))
    for name, a, b in pairs:
        e = float(np.abs(a - b).max() / max(np.abs(b).max(), 1e-300))
        ctx.observe('root_state_%s/1e-9' % name, e / 1e-9)
        if not e <= 1e-9:
            # how far is the last evaluated x from the returned root?
            dx = float(np.abs(np.asarray(p.x) - np.asarray(res.x)).max()) if hasattr(p, 'x') else float('nan')
            ctx.violation('hist:solve-leaves-arrays-of-another-x', '%s: after solve() %s differs (rel %.3g) from the array a fresh object computes at minimize_result.x; the object\'s last evaluated x differs from the returned root by %.3g' % (where, name, e, dx))
            return
    e = float(np.abs(np.asarray(y) - np.asarray(res.fun)).max())
    if not e <= 1e-9 * max(1.0, np.abs(res.x).max()) + 100 * scale * 1e-6:
        ctx.violation('hist:reported-residual-not-of-returned-root', '%s: cost(minimize_result.x) differs from minimize_result.fun by %.3g' % (where, e))


def locate_writer(p, pristine, case, step):
    """write-protected replica: replay the history with omega read-only in the offending step to get file:line"""
    try:
        q = copy.deepcopy(pristine)
        for op in case['history'][:step]:
            if op in CALC:
                getattr(pyPRISM.calculate, CALC[op][0])(q, **CALC[op][1])
            elif op in FLIPS:
                m = getattr(q, FLIPS[op])
                (q.sys.domain.MatrixArray_to_fourier if m.space == Space.Real else q.sys.domain.MatrixArray_to_real)(m)
        q.omega.data.flags.writeable = False
        op = case['history'][step]
        getattr(pyPRISM.calculate, CALC[op][0])(q, **CALC[op][1])
    except ValueError as e:
        if 'read-only' in str(e):
            fs = traceback.extract_tb(e.__traceback__)[-1]
            return ' [write-protected replica: written at %s:%d `%s`]' % (fs.filename.split('/')[-1], fs.lineno, fs.line)
    except Exception:
        pass
    return ''
