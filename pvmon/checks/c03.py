"""C03 - Hard-core exclusion: g(r) vanishes everywhere inside the contact distance.

Monitor shapes: (a) invariant at a hook - every closure class's `calculate` is wrapped; while a monitored PRISM
object evaluates its cost function the wrapper identifies the pair through a registry (closure instance ->
pair, filled when the object is created) and asserts c + gamma = -1 at every core point of THAT evaluation, for
arbitrary trial vectors (hostile ones pushed by the workload and every trial step of the solvers);
(b) post-condition on solved objects: |g(r_i)| <= ||Y||_inf / r_i inside the core, Y the reported residual.
The core set of a pair is computed from the user's inputs only.
"""
import numpy as np

import pyPRISM
from pyPRISM.closure.PercusYevick import PercusYevick
from pyPRISM.closure.HyperNettedChain import HyperNettedChain
from pyPRISM.closure.MeanSphericalApproximation import MeanSphericalApproximation
from pyPRISM.closure.MartynovSarkisov import MartynovSarkisov

from .. import core
from .. import refmodel as R
from .. import gen as G
from .. import tutorials as T

PID = 'C03'
RULE = ('cases = random systems of rank 1-3 with at least one hard-core pair (hard-core potential closed with PY/HNC, or any closure with the flag) mixed with '
        'soft pairs; per system 13 hostile trial vectors are pushed through cost (gaussian noise of scale 0.1..50, constants +-100, single spikes, sign flips, one vector beyond high_value/kT) and '
        'then solved (every solver trial vector is observed too); non-trivial = system with >= 1 hard-core pair on which >= 10 evaluations were checked; '
        'distinct = distinct case digests')
ASSUMPTIONS = ['core set of a pair = {r <= sigma_U} for hard-core potentials closed with PY/HNC, united with {r <= sigma_d} when the closure carries the flag (literal r <= sigma of the statement)',
               'high_value/kT >= 1e3 so that exp(-u/kT) underflows as documented', 'non-finite gamma produced by diverging solver steps is ignored point-wise']
MINIMA = {'quick': {'core.evaluation_checked': 3000, 'core.points_checked': 50000, 'solved.g_inside_core': 40, 'hostile_vector': 600},
          'thorough': {'core.evaluation_checked': 100000, 'core.points_checked': 2000000, 'solved.g_inside_core': 1000, 'hostile_vector': 15000}}
SHARDS = {'quick': 8, 'thorough': 16}
TIME_BUDGET = {'quick': 35, 'thorough': 300}

EPS = np.finfo(float).eps
BASES = [PercusYevick, HyperNettedChain, MeanSphericalApproximation, MartynovSarkisov]
_S = {'ctx': None, 'registry': {}, 'active': False}


def setup(ctx):
    _S['ctx'] = ctx
    for cls in BASES:
        if '_pvmon_c03' in cls.__dict__:
            continue
        orig = cls.__dict__['calculate']

        def make(orig):
            def calculate(self, r, gamma):
                out = orig(self, r, gamma)
                info = _S['registry'].get(id(self)) if _S['active'] else None
                if info is not None:
                    check_core(info, np.asarray(r), np.asarray(gamma), np.asarray(out))
                return out
            return calculate
        cls.calculate = make(orig)
        cls._pvmon_c03 = True


def check_core(info, r, gamma, out):
    ctx = _S['ctx']
    core_idx = info['core']
    if core_idx.size == 0:
        return
    ctx.hook('core.evaluation_checked')
    g = gamma[core_idx]
    c = out[core_idx]
    fin = np.isfinite(g)
    ctx.hook('core.points_checked', int(fin.sum()))
    with np.errstate(all='ignore'):
        dev = np.abs(c[fin] + g[fin] + 1.0)
        bad = ~(dev <= 8 * EPS * (1 + np.abs(g[fin])))
    if bad.any() and info['clo'] == 'HNC':
        # where the core comes from the potential only (no flag, or r beyond the flag's sigma_d but inside an explicit, larger
        # potential sigma) HNC rests on exp(gamma - u) underflowing; it cannot for gamma >= high_value/kT - 745
        by_flag = (r[core_idx][fin] <= info['sigma_flag']) if info['hc'] else np.zeros(int(fin.sum()), dtype=bool)
        beyond = ((g[fin] - info['u_core']) > -745.2) & ~by_flag
        if np.all(beyond[bad]):
            ctx.violation('core:HNC-without-flag-gamma-beyond-high-value', 'HNC without flag: gamma=%.6g >= high_value/kT - 745 = %.6g inside the core' % (float(g[fin][bad].max()), info['u_core'] - 745.2))
            return
    if bad.any():
        i = int(np.argmax(np.where(bad, dev, 0)))
        ri = r[core_idx][fin][i]
        ctx.violation('core:closure-output-not-minus-one-minus-gamma:%s%s' % (info['clo'], 'hc' if info['hc'] else ''),
                      'pair %s (%s%s on %s): c + gamma = %.17g != -1 at r=%.6g <= sigma=%.6g for gamma=%.6g (an evaluation of the self-consistency function)' % (
                          info['pair'], info['clo'], '(flag)' if info['hc'] else '', info['pot'], float(c[fin][i] + g[fin][i]), ri, info['sigma'], float(g[fin][i])))


def core_set(sp, a, b, r):
    cs, ps = sp['clo'][G.pk(a, b)], sp['pot'][G.pk(a, b)]
    sig_d = (sp['d'][a] + sp['d'][b]) / 2.0
    sig_u = R.pot_sigma(ps, sig_d)
    m = np.zeros(len(r), dtype=bool)
    if R.hard_core_family(ps) and cs['t'] in ('PY', 'HNC') and ps.get('hv', 1e6) / sp['kT'] >= 1e3:
        m |= r <= sig_u
    if cs.get('hc'):
        m |= r <= sig_d
    return m, max(sig_u if (R.hard_core_family(ps) and cs['t'] in ('PY', 'HNC')) else -1, sig_d if cs.get('hc') else -1)


def cases(ctx):
    for i, name in enumerate(T.NAMES):
        if ctx.mine(i):
            yield {'kind': 'tutorial', 'name': name}
    rng = ctx.rng('c03')
    n = ctx.budget(160, 4000)
    for it in range(n):
        yield {'seed': int(rng.integers(0, 2 ** 31))}


def hostile(rng, n, kind, prev=None):
    if kind == 'noise':
        return rng.normal(size=n) * float(10 ** rng.uniform(-1, np.log10(50)))
    if kind == 'const':
        return np.full(n, float(rng.choice([-100.0, 100.0, 3.0, -0.5])))
    if kind == 'spike':
        x = np.zeros(n)
        x[int(rng.integers(0, n))] = float(rng.choice([-1e3, 1e3, 50.0]))
        return x
    if kind == 'huge':
        return np.full(n, 1e7)
    if kind == 'prev' and prev is not None:
        return prev * float(rng.choice([-1.0, 0.5, 2.0])) + rng.normal(size=n) * 0.01
    return rng.uniform(-5, 5, size=n)


def register(sp, p, r):
    """registry: closure instance of the live object -> pair info computed from the USER's inputs"""
    _S['registry'] = {}
    ncore_pairs = 0
    for (i, j), (a, b) in G.pairs(sp['types']):
        m, sig = core_set(sp, a, b, r)
        if m.any():
            ncore_pairs += 1
        _S['registry'][id(p.sys.closure[a, b])] = {'pair': '%s-%s' % (a, b), 'core': np.where(m)[0], 'clo': sp['clo'][G.pk(a, b)]['t'], 'hc': bool(sp['clo'][G.pk(a, b)].get('hc')),
                                                  'pot': sp['pot'][G.pk(a, b)]['t'], 'sigma': sig,
                                                  'u_core': sp['pot'][G.pk(a, b)].get('hv', 1e6) / sp['kT'], 'sigma_flag': (sp['d'][a] + sp['d'][b]) / 2.0}
    return ncore_pairs


def check_solved(ctx, sp, p, res, r, what):
    g = np.asarray(pyPRISM.calculate.pair_correlation(p).data)
    Y = float(np.abs(res.fun).max())
    for (i, j), (a, b) in G.pairs(sp['types']):
        m, sig = core_set(sp, a, b, r)
        if not m.any():
            continue
        ctx.hook('solved.g_inside_core')
        bound = (Y / r[m]) * (1 + 1e-9) + 1e-9          # g r equals the residual inside a core: equality up to rounding, in any unit of length
        dev = np.abs(g[m, i, j])
        ctx.observe('g_core/bound', float((dev / bound).max()))
        if not np.all(dev <= bound):
            k = int(np.argmax(dev / bound))
            ctx.violation('core:g-nonzero-inside-core', 'solved %s: |g_%s%s(r=%.4g)| = %.3g inside the core (sigma=%.4g) exceeds residual/r = %.3g' % (
                what, a, b, r[m][k], dev[k], sig, bound[k]))
            break


def run_tutorial(ctx, case):
    """the maintainers' case studies: every evaluation of every solve is watched by the core hook, every solved object is judged"""
    def before(sp, s, p):
        register(sp, p, R.grids(sp['L'], sp['dr'])[0])
        _S['active'] = True

    def on_step(sp, s, p, res, label):
        _S['active'] = False
        ctx.hook('tutorial.step_judged')
        check_solved(ctx, sp, p, res, R.grids(sp['L'], sp['dr'])[0], label)
        ctx.count('tutorial', case['name'])
    try:
        nok, n = T.run(case['name'], on_step, before_solve=before)
    finally:
        _S['active'] = False
    ctx.count('tutorial_steps', '%s: %d of %d solved' % (case['name'], nok, n))
    if nok:
        ctx.nontrivial(['tutorial', case['name']])


def run_case(ctx, case):
    if case.get('kind') == 'tutorial':
        return run_tutorial(ctx, case)
    rng = np.random.default_rng(case['seed'])
    for attempt in range(20):
        sp = G.gen_spec(rng, lengths=[64, 100, 128])
        if rng.random() < 0.12:
            sp = G.integer_grid(sp)
        elif case['seed'] % 9 == 4:
            sp = G.scaled_units(sp, [1e-7, 1e-9, 1e3][case['seed'] // 9 % 3])       # the same system in cm / m / small units of length
            ctx.hook('other_length_units')
        r = R.grids(sp['L'], sp['dr'])[0]
        if any(core_set(sp, a, b, r)[0].any() for (_, _), (a, b) in G.pairs(sp['types'])):
            break
    else:
        raise core.Skip('no hard-core pair generated')
    sp['via'] = str(rng.choice(G.VIAS)) if not isinstance(sp['dr'], int) else 'dr'
    sp['kT_via'] = str(rng.choice(['ctor', 'assign']))
    with np.errstate(all='ignore'):
        s = G.build(sp)
        if rng.random() < 0.5:
            # diameter sweep on one System: objects were already created for smaller / larger diameters before
            final = dict(sp['d'])
            for step in (-2, +1):
                for t in sp['types']:
                    s.diameter[t] = max(sp['dr'] * 2, final[t] + step * sp['dr'])
                s.createPRISM()
            for t in sp['types']:
                s.diameter[t] = final[t]
            ctx.hook('diameter_sweep_history')
        p = s.createPRISM()
    ncore_pairs = register(sp, p, r)
    n = sp['L'] * len(sp['types']) ** 2
    before = ctx.hooks.get('core.evaluation_checked', 0)
    _S['active'] = True
    try:
        prev = None
        for kind in ['noise', 'noise', 'noise', 'const', 'const', 'spike', 'spike', 'uniform', 'noise', 'prev', 'prev', 'noise', 'huge']:
            x = hostile(rng, n, kind, prev)
            ctx.hook('hostile_vector')
            with np.errstate(all='ignore'):
                try:
                    p.cost(np.array(x))
                except np.linalg.LinAlgError:
                    pass
            prev = x
        res = None
        for meth, o in [('krylov', {'line_search': 'wolfe'}), ('anderson', {}), ('df-sane', {})]:
            res = G.solve(p, meth, dict({'maxiter': 50 if meth == 'krylov' else 300}, **o), max_evals=1000)
            ctx.count('solve', '%s/%s' % (meth, 'converged' if res is not None and res.success else 'failed'))
            if res is not None and res.success:
                break
    finally:
        _S['active'] = False
    # (b) solved object: |g| <= ||Y||/r inside every core
    if res is not None and res.success:
        if rng.random() < 0.5:
            # the user looked at S(k) or B2 first: totalCorr is then held in Fourier space when g(r) is requested
            (pyPRISM.calculate.structure_factor if rng.random() < 0.5 else pyPRISM.calculate.second_virial)(p)
            ctx.hook('solved.g_requested_with_h_in_fourier_space')
        check_solved(ctx, sp, p, res, r, G.spec_signature(sp))
    if ncore_pairs and ctx.hooks.get('core.evaluation_checked', 0) - before >= 10:
        ctx.nontrivial(case)
    ctx.count('hard_core_pairs', ncore_pairs)
    for (i, j), (a, b) in G.pairs(sp['types']):
        cs, ps = sp['clo'][G.pk(a, b)], sp['pot'][G.pk(a, b)]
        ctx.count('pair_kind', '%s%s/%s' % (cs['t'], 'hc' if cs.get('hc') else '', ps['t']))
    ctx.sample({'system': G.spec_signature(sp), 'hard_core_pairs': ncore_pairs, 'solved': bool(res is not None and res.success)}, limit=4)
