"""C09 - Closures equal their definitions and respect core, limit and purity rules.

Monitor shape: post-condition contract on the real `calculate` of every closure class (attached on the
class, so aliases and closures evaluated inside PRISM.cost are covered too): inputs are snapshotted,
the output is compared with the published relation evaluated by refmodel, inputs must be bit-identical
afterwards.  The workload adds the metamorphic probes (elementwise, aliases, weak limit).
"""
import copy
import os
import json
import warnings

import numpy as np

import pyPRISM
from pyPRISM.closure.PercusYevick import PercusYevick
from pyPRISM.closure.HyperNettedChain import HyperNettedChain
from pyPRISM.closure.MeanSphericalApproximation import MeanSphericalApproximation
from pyPRISM.closure.MartynovSarkisov import MartynovSarkisov

from .. import suite as SUITE
from .. import refmodel as R
from .. import gen as G

PID = 'C09'
RULE = ('cases = (closure class or alias, hard-core flag, grid length 1-2048, gamma of scale 1e-4..50 with both signs (10 % integer-dtype arrays), potential kind '
        'finite random | hard-core step (1e6 or +inf) + tail | zero | weak, grids starting at dr or at r = 0, sigma below/inside/on/above the grid or a hair (1 ulp .. 1e-5 relative) below/above a grid value); each case runs the direct call, '
        'permuted/subsampled/one-element-at-a-time calls, a re-use of the same object with another potential and sigma, the alias, a read-only replica and the weak-coupling limit; non-trivial = gamma '
        'not identically zero and potential not identically zero; distinct = distinct case digests')
ASSUMPTIONS = ['published relations: PY (e^-u - 1)(1+gamma); HNC e^(gamma-u)-1-gamma; MSA -u; MS exp(sqrt(1+2(gamma-u))-1)-1-gamma',
               'core = r <= sigma exactly as the statement says (contact-point tolerance is judged by C10 only)']
MINIMA = {'quick': {'closure.calculate:PY': 500, 'closure.calculate:HNC': 500, 'closure.calculate:MSA': 500, 'closure.calculate:MS': 500, 'elementwise_probe': 500, 'weak_limit_probe': 200},
          'thorough': {'closure.calculate:PY': 20000, 'closure.calculate:HNC': 20000, 'closure.calculate:MSA': 20000, 'closure.calculate:MS': 20000, 'elementwise_probe': 20000, 'weak_limit_probe': 5000}}
SHARDS = {'quick': 4, 'thorough': 16}
TIME_BUDGET = {'quick': 40, 'thorough': 240}

EPS = np.finfo(float).eps
BASES = {'PY': PercusYevick, 'HNC': HyperNettedChain, 'MSA': MeanSphericalApproximation, 'MS': MartynovSarkisov}
_S = {'ctx': None, 'on': True}


def kind_of(obj):
    for k, cls in BASES.items():
        if isinstance(obj, cls):
            return k
    return None


def agree(got, ref, rtol=1e-12):
    got = np.asarray(got, dtype=float)
    ref = np.asarray(ref, dtype=float)
    if got.shape != ref.shape:
        return False, np.inf
    with np.errstate(all='ignore'):
        err = np.abs(got - ref)
        ok = (err <= rtol * (1 + np.abs(ref))) | (got == ref) | (np.isnan(got) & np.isnan(ref))
        if ok.all():
            fin = np.isfinite(err)
            return True, float((err[fin] / (1 + np.abs(ref[fin]))).max()) if fin.any() else 0.0
        e = np.where(ok, 0, err / (1 + np.abs(ref)))
        return False, float(np.nanmax(np.where(np.isfinite(e), e, 1e300)))


def definition_contract(self, r, gamma, out, snap):
    """post-condition evaluated after every closure.calculate"""
    ctx = _S['ctx']
    k = kind_of(self)
    ctx.hook('closure.calculate:%s' % k)
    r0, g0, u0, sig, hc = snap
    if not np.array_equal(np.asarray(gamma), g0, equal_nan=True):
        ctx.violation('closure:modified-gamma', '%s.calculate modified its gamma argument' % type(self).__name__)
    if not np.array_equal(np.asarray(r), r0, equal_nan=True):
        ctx.violation('closure:modified-r', '%s.calculate modified its r argument' % type(self).__name__)
    if not np.array_equal(np.asarray(self.potential), u0, equal_nan=True):
        ctx.violation('closure:modified-potential', '%s.calculate modified its potential' % type(self).__name__)
    spec = {'t': k, 'hc': bool(hc)}
    ref = R.c_ref(spec, r0, g0, u0, sig if sig is not None else -np.inf)
    ok, e = agree(out, ref)
    if ok or k != 'MS':
        ctx.observe('closure_vs_definition/1e-12', e / 1e-12)
    if ok:
        return
    if k == 'MS':
        # the literature has two forms (potential inside or outside the root); either is the MS relation
        ok1, _ = agree(out, R.c_ref(spec, r0, g0, u0, sig if sig is not None else -np.inf, ms='original'))
        if ok1:
            return
        ok2, _ = agree(out, R.c_ref(spec, r0, g0, u0, sig if sig is not None else -np.inf, ms='shipped'))
        if ok2:
            ctx.violation('closure:MS-shipped-form', 'MartynovSarkisov returns exp(sqrt(gamma-u+0.5)-1)-1-gamma, not the Martynov-Sarkisov relation')
            return
    out = np.asarray(out, dtype=float)
    where = 'core' if (hc and sig is not None and np.any((r0 <= sig) & ~np.isclose(out, ref, rtol=1e-12, atol=1e-12, equal_nan=True))) else 'outside-core'
    ctx.violation('closure:%s%s-differs-from-definition:%s' % (k, 'hc' if hc else '', where),
                  '%s(apply_hard_core=%s).calculate differs from the published relation (rel err %.3g, %d points, sigma=%r)' % (
                      type(self).__name__, hc, e, len(g0), sig))


def attach(ctx):
    _S['ctx'] = ctx
    for k, cls in BASES.items():
        if '_pvmon_orig_calculate' in cls.__dict__:
            continue
        orig = cls.__dict__['calculate']

        def make(orig):
            def calculate(self, r, gamma):
                if _S['ctx'] is None or not _S['on']:
                    return orig(self, r, gamma)
                snap = (np.array(r, dtype=float, copy=True), np.array(gamma, dtype=float, copy=True),
                        np.array(self.potential, dtype=float, copy=True) if self.potential is not None else None,
                        getattr(self, 'sigma', None), getattr(self, 'apply_hard_core', False))
                out = orig(self, r, gamma)
                if snap[2] is not None:
                    definition_contract(self, r, gamma, out, snap)
                return out
            return calculate
        cls._pvmon_orig_calculate = orig
        cls.calculate = make(orig)


def setup(ctx):
    attach(ctx)


# ----------------------------------------------------------------------------- workload

NAMES = ['PY', 'HNC', 'MSA', 'MS']


def cases(ctx):
    if ctx.mine(2):
        yield {'kind': 'optimized_mode'}
    if ctx.mine(1):
        yield {'kind': 'repo_suite'}          # the repository's own tests, run in-process under this check's monitors
    rng = ctx.rng('c09')
    n = ctx.budget(1600, 80000)
    for it in range(n):
        yield {'clo': NAMES[it % 4], 'hc': bool(rng.random() < 0.6), 'alias': bool(rng.random() < 0.4),
               'L': int(rng.choice([1, 2, 3, 17, 64, 100, 256, int(rng.integers(1, 2049))])) if ctx.thorough() else int(rng.choice([1, 2, 3, 17, 64, 100, 256, int(rng.integers(1, 400))])),
               'gscale': float(10 ** rng.uniform(-4, np.log10(50))), 'pot': str(rng.choice(['finite', 'step', 'zero', 'weak', 'steptail', 'step_inf'])), 'r0': bool(rng.random() < 0.15),
               'sig': str(rng.choice(['inside', 'ongrid', 'below', 'above', 'inside', 'just_below', 'just_above'])), 'seed': int(rng.integers(0, 2 ** 31)),
               'gdtype': 'int' if rng.random() < 0.1 else 'float'}


OPT_SCRIPT = r"""
import json, sys, warnings
warnings.simplefilter('ignore')
import numpy as np
import pyPRISM
out = {'optimize_flag': sys.flags.optimize}
rng = np.random.default_rng(7)
r = 0.1 * np.arange(1, 41)
sigma = 1.05
u = 0.7 * np.cos(r) - 0.2            # soft everywhere, also inside the core
for name in ('PercusYevick', 'PY', 'HyperNettedChain', 'HNC', 'MeanSphericalApproximation', 'MSA', 'MartynovSarkisov', 'MS'):
    worst_core, worst_out = 0.0, 0.0
    for flag in (True, False):
        c = getattr(pyPRISM.closure, name)(apply_hard_core=flag)
        c.sigma, c.potential = sigma, np.array(u)
        for amp in (0.0, 0.3, 2.0):
            g = rng.normal(size=len(r)) * amp
            got = np.asarray(c.calculate(np.array(r), np.array(g)), dtype=float)
            core = r <= sigma
            base = name[:2]
            if base in ('Pe', 'PY'):
                ref = (np.exp(-u) - 1) * (1 + g)
            elif base in ('Hy', 'HN'):
                ref = np.exp(g - u) - 1 - g
            elif base in ('Me', 'MS') and name in ('MeanSphericalApproximation', 'MSA'):
                ref = -u
            else:
                ref = None
            if flag:
                worst_core = max(worst_core, float(np.abs(got[core] + 1 + g[core]).max()))
                if ref is not None:
                    worst_out = max(worst_out, float(np.abs(got[~core] - ref[~core]).max()))
            elif ref is not None:
                worst_out = max(worst_out, float(np.abs(got - ref).max()))
    out[name] = [worst_core, worst_out]
print('OBS ' + json.dumps(out))
"""


def run_optimized_mode(ctx, case):
    """the interpreter's optimised mode (python -O / PYTHONOPTIMIZE=1 strips assert statements): the closures equal their definitions and
    keep the core rule there as well.  A fresh interpreter per mode; the reference values are computed inside the script."""
    import subprocess
    import sys as _sys
    from .. import core
    for mode, args, envx in (('normal', [], {}), ('-O', ['-O'], {}), ('PYTHONOPTIMIZE=1', [], {'PYTHONOPTIMIZE': '1'})):
        env = dict(os.environ, PYTHONPATH=core.REPO, PYTHONWARNINGS='ignore', **envx)
        env.pop('PYTHONOPTIMIZE', None) if mode == 'normal' else None
        p = subprocess.run([_sys.executable] + args + ['-c', OPT_SCRIPT], env=env, stdout=subprocess.PIPE, stderr=subprocess.STDOUT, universal_newlines=True, timeout=120)
        line = [l for l in p.stdout.splitlines() if l.startswith('OBS ')]
        if not line:
            ctx.violation('closure:raises-in-interpreter-mode:%s' % mode, 'closure evaluation in a %s interpreter failed: %s' % (mode, p.stdout.strip().splitlines()[-1][:200] if p.stdout.strip() else 'no output'))
            continue
        obs = json.loads(line[0][4:])
        ctx.hook('interpreter_mode_probe')
        for name, (wc, wo) in ((k, v) for k, v in obs.items() if k != 'optimize_flag'):
            if not wc <= 1e-12:
                ctx.violation('closure:core-rule-broken-in-interpreter-mode', '%s(apply_hard_core=True) in a %s interpreter: |c + gamma + 1| = %.3g inside the core' % (name, mode, wc))
            if not wo <= 1e-12:
                ctx.violation('closure:differs-from-definition-in-interpreter-mode', '%s in a %s interpreter differs from its relation by %.3g' % (name, mode, wo))
    ctx.nontrivial(['optimized_mode'])


def run_case(ctx, case):
    if case.get('kind') == 'optimized_mode':
        return run_optimized_mode(ctx, case)
    if case.get('kind') == 'repo_suite':
        return SUITE.run(ctx)
    rng = np.random.default_rng(case['seed'])
    L = int(case['L'])
    dr = float(rng.choice([0.1, 0.05, 0.025, 0.2]))
    r = dr * np.arange(1, L + 1)
    if case.get('r0'):
        r = dr * np.arange(0, L)              # a grid that starts AT the origin (tabulated data often does)
    sk = case['sig']
    if sk == 'inside':
        sigma = float(rng.uniform(r[0], r[-1])) if L > 1 else float(r[0] * rng.uniform(0.5, 1.5))
    elif sk == 'ongrid':
        sigma = float(r[int(rng.integers(0, L))])
    elif sk in ('just_below', 'just_above'):
        # sigma a hair away from a grid value (the literal r > sigma of the statement decides, no tolerance at this level)
        x = float(r[int(rng.integers(0, L))])
        dlt = float(rng.choice([0.0, 1e-15, 1e-12, 1e-9, 2e-6, 1e-5])) * max(abs(x), dr)
        sigma = (float(np.nextafter(x, -np.inf)) - dlt) if sk == 'just_below' else (float(np.nextafter(x, np.inf)) + dlt)
    elif sk == 'below':
        sigma = float(r[0] * 0.5)
    else:
        sigma = float(r[-1] * 1.5)
    gam = rng.normal(size=L) * case['gscale']
    if rng.random() < 0.2:
        gam = np.abs(gam) * float(rng.choice([-1, 1]))
    if case.get('gdtype') == 'int':
        # an integer array is a real array too (e.g. the all-zero first guess np.zeros(n, dtype=int))
        gam = np.round(gam).astype(np.int64) if case['gscale'] > 1 else np.zeros(L, dtype=np.int64)
    pk = case['pot']
    if pk == 'finite':
        u = rng.normal(size=L) * float(10 ** rng.uniform(-2, 1))
    elif pk == 'zero':
        u = np.zeros(L)
    elif pk == 'weak':
        u = rng.normal(size=L) * 1e-3
    elif pk == 'step':
        u = np.where(r > sigma, 0.0, 1e6)
    elif pk == 'step_inf':
        u = np.where(r > sigma, -0.3 * np.exp(-(r - sigma)), np.inf)          # a truly infinite core, e.g. HardSphere(high_value=np.inf)
    else:
        u = np.where(r > sigma, -0.5 * np.exp(-(r - sigma)), 1e6 / float(rng.choice([1.0, 0.5, 5.0])))
    cname = G.CLOSURES[case['clo']][1 if case['alias'] else 0]
    hc = bool(case['hc'])

    def fresh(name=cname):
        c = getattr(pyPRISM.closure, name)(apply_hard_core=hc)
        c.sigma = sigma
        c.potential = np.array(u)
        return c
    with np.errstate(all='ignore'):
        c = fresh()
        out = np.array(c.calculate(np.array(r), np.array(gam)), dtype=float)     # contract evaluated inside
        # --- repeat call on the same object gives the same answer (no hidden state)
        out2 = np.array(c.calculate(np.array(r), np.array(gam)), dtype=float)
        if not np.array_equal(out, out2, equal_nan=True):
            ctx.violation('closure:not-repeatable', '%s: second identical call differs' % cname)
        # --- inside the core the relation is NOT applied: with the flag on, c = -1 - gamma there for ANY real gamma, and nothing else
        #     is computed from the core values.  Observable for a caller who runs with floating-point errors / warnings escalated
        #     (np.errstate(over='raise'), python -W error): a gamma that is huge ONLY inside the core must not raise.  The
        #     baseline call under the same regime decides whether the regime itself is tolerable for this case (outside points).
        core = r <= sigma
        if hc and core.any() and gam.dtype.kind == 'f' and np.isfinite(u[~core]).all():
            def strict(gv):
                with warnings.catch_warnings():
                    warnings.simplefilter('error')
                    with np.errstate(over='raise', invalid='raise', divide='raise', under='ignore'):
                        return np.array(fresh().calculate(np.array(r), np.array(gv)), dtype=float)
            try:
                base = strict(gam)
            except (FloatingPointError, Warning):
                base = None
                ctx.count('strict_core_probe', 'baseline-not-strict-clean')
            if base is not None:
                ctx.hook('strict_core_probe')
                g2 = np.array(gam, dtype=float)
                g2[core] = np.abs(g2[core]) + float(rng.choice([720.0, 800.0, 5000.0]))
                try:
                    o2 = strict(g2)
                except (FloatingPointError, Warning) as e:
                    ctx.violation('closure:relation-evaluated-inside-core', '%s(hc=True): with gamma large only at r <= sigma the call raises %s under escalated floating-point errors, while the same call with moderate core values is clean: the relation is computed from core points' % (cname, type(e).__name__))
                else:
                    if not np.array_equal(o2[core], -1.0 - g2[core]) or not np.array_equal(o2[~core], base[~core], equal_nan=True):
                        ctx.violation('closure:core-value-wrong:large-gamma', '%s(hc=True): c != -1-gamma inside the core or outside values changed when only core gammas changed' % cname)
        # --- an array returned earlier is not disturbed by later calls on the same object, also when it is fed back as gamma
        craw = c.calculate(np.array(r), np.array(gam))
        ckeep = np.array(craw, copy=True)
        c.calculate(np.array(r), np.array(gam) * 0.5 + 0.1)
        fed = c.calculate(np.array(r), craw)                       # iterate: gamma <- previous c (the very same array object)
        want = np.array(fresh().calculate(np.array(r), np.array(ckeep)), dtype=float)
        if not np.array_equal(np.asarray(craw), ckeep, equal_nan=True):
            ctx.violation('closure:earlier-result-overwritten', '%s(hc=%s): an array returned by calculate changed after later calls on the same object' % (cname, hc))
        elif not np.array_equal(np.asarray(fed, dtype=float), want, equal_nan=True):
            ctx.violation('closure:wrong-when-output-fed-back', '%s(hc=%s): calculate(r, previous_output) differs from the evaluation on a copy of that array' % (cname, hc))
        # --- the same object re-used with another potential and sigma (a closure carries no memory of earlier calls)
        ctx.hook('object_reuse_probe')
        u_new = np.array(u[::-1]) * float(rng.uniform(0.3, 2.0)) + (0.25 if pk not in ('step', 'step_inf') else 0.0)
        c.potential = u_new
        c.sigma = sigma * float(rng.choice([1.0, 0.7, 1.3]))
        o_reuse = np.array(c.calculate(np.array(r), np.array(gam)), dtype=float)          # contract judges it against the CURRENT potential
        cf = fresh()
        cf.potential = np.array(u_new)
        cf.sigma = c.sigma
        o_fresh = np.array(cf.calculate(np.array(r), np.array(gam)), dtype=float)
        if not np.array_equal(o_reuse, o_fresh, equal_nan=True):
            ctx.violation('closure:result-depends-on-earlier-calls', '%s(hc=%s): an object evaluated before with another potential gives a different result than a fresh object' % (cname, hc))
        # --- the public attributes are the closure's whole state: the flag switched on an existing object, and a shallow copy
        #     given its own potential / contact distance, are judged by the contract against what they hold at the call
        ctx.hook('flag_toggled_on_existing_object')
        c.apply_hard_core = not hc
        o_tog = np.array(c.calculate(np.array(r), np.array(gam)), dtype=float)
        ct = getattr(pyPRISM.closure, cname)(apply_hard_core=not hc)
        ct.sigma, ct.potential = c.sigma, np.array(u_new)
        if not np.array_equal(o_tog, np.array(ct.calculate(np.array(r), np.array(gam)), dtype=float), equal_nan=True):
            ctx.violation('closure:flag-change-on-object-ignored', '%s: after apply_hard_core was set to %s on an existing object it evaluates differently from an object constructed with that flag' % (cname, not hc))
        c.apply_hard_core = hc
        cc = copy.copy(fresh())
        cc.potential = np.array(u_new)
        cc.sigma = sigma * float(rng.choice([0.8, 1.2]))
        ctx.hook('shallow_copy_probe')
        o_cc = np.array(cc.calculate(np.array(r), np.array(gam)), dtype=float)
        cf2 = fresh()
        cf2.potential, cf2.sigma = np.array(u_new), cc.sigma
        if not np.array_equal(o_cc, np.array(cf2.calculate(np.array(r), np.array(gam)), dtype=float), equal_nan=True):
            ctx.violation('closure:shallow-copy-evaluates-with-original-state', '%s(hc=%s): a copy.copy of a closure given its own potential and sigma evaluates differently from a fresh object holding the same' % (cname, hc))
        # --- elementwise: permutation, subsample, one element at a time
        ctx.hook('elementwise_probe')
        perm = rng.permutation(L)
        c2 = fresh()
        c2.potential = np.array(u[perm])
        o = np.array(c2.calculate(np.array(r[perm]), np.array(gam[perm])), dtype=float)
        if not np.array_equal(o, out[perm], equal_nan=True):
            ctx.violation('closure:not-elementwise:permutation', '%s(hc=%s): value at an element changes when the arrays are permuted' % (cname, hc))
        sub = np.sort(rng.choice(L, size=max(1, L // 3), replace=False))
        c3 = fresh()
        c3.potential = np.array(u[sub])
        o = np.array(c3.calculate(np.array(r[sub]), np.array(gam[sub])), dtype=float)
        if not np.array_equal(o, out[sub], equal_nan=True):
            ctx.violation('closure:not-elementwise:subsample', '%s(hc=%s): value at an element depends on which other elements are present' % (cname, hc))
        for i in [int(x) for x in rng.choice(L, size=min(L, 3), replace=False)]:
            c4 = fresh()
            c4.potential = np.array(u[i:i + 1])
            o = np.array(c4.calculate(np.array(r[i:i + 1]), np.array(gam[i:i + 1])), dtype=float)
            if not np.array_equal(o, out[i:i + 1], equal_nan=True):
                ctx.violation('closure:not-elementwise:single', '%s(hc=%s): single-element evaluation differs from the array evaluation' % (cname, hc))
        # --- alias behaves identically
        other = G.CLOSURES[case['clo']][0 if case['alias'] else 1]
        o = np.array(fresh(other).calculate(np.array(r), np.array(gam)), dtype=float)
        if not np.array_equal(o, out, equal_nan=True):
            ctx.violation('closure:alias-differs', '%s and %s give different results' % (cname, other))
        # --- read-only replica: any write into an input raises at the offending line
        rr, gg, c5 = np.array(r), np.array(gam), fresh()
        for a in (rr, gg, c5.potential):
            a.flags.writeable = False
        try:
            o = np.array(c5.calculate(rr, gg), dtype=float)
            if not np.array_equal(o, out, equal_nan=True):
                ctx.violation('closure:readonly-replica-differs', '%s: result changes when the inputs are read-only' % cname)
        except ValueError as e:
            if 'read-only' in str(e):
                import traceback
                fs = traceback.extract_tb(e.__traceback__)[-1]
                ctx.violation('closure:writes-into-input', '%s writes into an input array at %s:%d (%s)' % (cname, fs.filename.split('/')[-1], fs.lineno, fs.line))
            else:
                raise
        # --- weak limit: c = -u + O(second order)
        if L >= 1:
            ctx.hook('weak_limit_probe')
            a, b = rng.normal(size=L), rng.normal(size=L)
            far = np.full(L, sigma) + r + dr     # all points strictly outside the core (r may start at 0)
            for eps in (1e-2, 1e-3, 1e-4):
                c6 = fresh()
                c6.potential = eps * b
                o = np.array(c6.calculate(far, eps * a), dtype=float)
                bound = 4 * (np.abs(a) + np.abs(b) + 1) ** 2 * eps ** 2
                bad = ~(np.abs(o + eps * b) <= bound)
                if bad.any():
                    k = case['clo']
                    shipped = R.c_ref({'t': k, 'hc': hc}, far, eps * a, eps * b, sigma, ms='shipped')
                    if k == 'MS' and np.allclose(o, shipped, rtol=1e-12, atol=1e-14):
                        ctx.violation('closure:MS-shipped-form', 'MartynovSarkisov does not reduce to c=-u for weak coupling (c(0,0)=%.3g)' % float(np.exp(np.sqrt(0.5) - 1) - 1))
                    else:
                        ctx.violation('closure:%s-weak-limit' % k, '%s: |c+u| = %.3g exceeds the second-order bound %.3g at eps=%g' % (cname, np.abs(o + eps * b)[bad].max(), bound[bad].max(), eps))
                    break
    if (np.any(gam != 0) or gam.dtype != float) and np.any(u != 0):
        ctx.nontrivial(case)
    ctx.count('closure', '%s%s' % (case['clo'], 'hc' if hc else ''))
    ctx.count('potential_kind', pk)
    ctx.count('sigma_kind', sk)
    ctx.count('gamma_dtype', str(gam.dtype))
    ctx.sample({'closure': cname, 'hard_core': hc, 'L': L, 'dr': dr, 'sigma': sigma, 'gamma_scale': case['gscale'], 'potential': pk,
                'gamma_head': gam[:3], 'u_head': u[:3], 'c_head': out[:3]}, limit=4)
