"""C08 - to_fourier/to_real approximate the continuous 3-D radial Fourier transform.

Monitor shape: refinement-family monitor.  For an analytic function the real Domain transforms are executed on a
family dr, dr/2, dr/4 (, dr/8) at fixed r_max (so the k grid is identical across the family) and the ABSOLUTE
values are compared with the closed-form transform at fixed k (forward) / fixed r (backward):
 (i) first-order envelope e(dr) <= K dr, (ii) the error shrinks under refinement (ratio 0.35..0.65 while above the
 noise floor), (iii) the Richardson limit 2Q(dr/2)-Q(dr) approaches the exact value at second order.
Compensating prefactor errors (round trip intact) are off by the factor itself in every one of these.
"""
import math

import numpy as np

import pyPRISM

PID = 'C08'
RULE = ('cases = (family gaussian | yukawa | exponential | sphere indicator, width resolved by >= 8 coarse grid points and decayed to < 1e-12 at r_max, '
        'amplitude 1e-15..1e6 of either sign, r_max in 25.6|51.2|102.4, coarse dr in 0.2|0.1|0.05 (0.4 for wide functions), 3 levels quick / 4 thorough; the transforms are called on 1-D arrays, on row-stacked 2-D arrays or through the MatrixArray entry points (flagged Real/Fourier or NonSpatial); the levels are fresh Domains (dr or dk constructor) or ONE Domain refined through its dr/dk/length setters in either order); '
        'each case = one refinement family judged at ~60 fixed wavenumbers, the k->0 limit and (gaussian/exponential) ~30 fixed r; '
        'non-trivial = all levels executed and at least one fixed-k error above the noise floor; distinct = distinct case digests')
ASSUMPTIONS = ['closed forms: gaussian (pi/a)^1.5 exp(-k^2/4a); yukawa 4pi/(k^2+kappa^2); exponential 8 pi kappa/(k^2+kappa^2)^2; sphere 4pi(sin kR - kR cos kR)/k^3',
               'first-order envelope K = 2/width (forward), 1/r + 2/width (backward): >= 3x the worst constant observed on the unchanged code',
               'backward transform is judged for gaussian and exponential only (yukawa/sphere transforms decay like k^-2: truncation at k_max dominates)']
MINIMA = {'quick': {'family': 30, 'fixed_k_points': 1500, 'richardson': 30, 'k0_limit': 30, 'backward_family': 10},
          'thorough': {'family': 1000, 'fixed_k_points': 50000, 'richardson': 1000, 'k0_limit': 1000, 'backward_family': 300}}
SHARDS = {'quick': 4, 'thorough': 16}
TIME_BUDGET = {'quick': 45, 'thorough': 240}

FLOOR = 2e-7       # relative noise floor below which ratios are not judged (truncation at r_max / k_max, rounding)


def cases(ctx):
    rng = ctx.rng('c08')
    n = ctx.budget(120, 2400)
    for it in range(n):
        kind = ['gauss', 'yuk', 'exp', 'sph'][it % 4]
        rmax = float(rng.choice([25.6, 51.2, 102.4, 20.5, 41.0, 28.7]))          # lengths 2^n, 41*2^n*5, 7*41*2^n
        dr0 = float(rng.choice([0.2, 0.1, 0.05] if rmax < 100 else [0.2, 0.1]))
        rmax = round(rmax / dr0) * dr0                 # r_max must be a multiple of the coarsest spacing
        lo = 8 * dr0
        if kind == 'gauss':
            w = float(rng.uniform(lo, rmax / 7.5))          # exp(-(rmax/w)^2) < 1e-24
        elif kind in ('yuk', 'exp'):
            w = float(rng.uniform(lo, rmax / 29.0)) if rmax / 29.0 > lo else lo
        else:
            w = float(dr0 * rng.integers(8, int(0.5 * rmax / dr0)))
        yield {'kind': kind, 'w': w, 'A': float(10 ** (rng.uniform(-3, 3) if rng.random() < 0.6 else rng.uniform(-15, 6)) * rng.choice([-1, 1])), 'rmax': rmax, 'dr0': dr0,
               'levels': 4 if ctx.thorough() else 3,
               'api': str(rng.choice(['array', 'array', 'stacked', 'ma_real', 'ma_nonspatial'])),
               'how': str(rng.choice(['fresh', 'fresh_positional', 'fresh_dk', 'refine_dr_then_length', 'refine_length_then_dr', 'refine_length_then_dk']))}


def analytic(kind, w, A, r, k):
    with np.errstate(all='ignore'):
        if kind == 'gauss':
            a = 1.0 / (w * w)
            return A * np.exp(-a * r * r), A * (np.pi / a) ** 1.5 * np.exp(-k * k / (4 * a)), A * (np.pi / a) ** 1.5
        if kind == 'yuk':
            kap = 1.0 / w
            return A * np.exp(-kap * r) / r, 4 * np.pi * A / (k * k + kap * kap), 4 * np.pi * A / kap ** 2
        if kind == 'exp':
            kap = 1.0 / w
            return A * np.exp(-kap * r), 8 * np.pi * A * kap / (k * k + kap * kap) ** 2, 8 * np.pi * A / kap ** 3
        R = w
        return A * (r <= R * (1 + 1e-12)).astype(float), 4 * np.pi * A * (np.sin(k * R) - k * R * np.cos(k * R)) / k ** 3, 4 * np.pi * A * R ** 3 / 3.0


def quad0(x, y):
    x0, x1, x2 = x[:3]
    return (y[0] * x1 * x2 / ((x0 - x1) * (x0 - x2)) + y[1] * x0 * x2 / ((x1 - x0) * (x1 - x2)) + y[2] * x0 * x1 / ((x2 - x0) * (x2 - x1)))


def run_case(ctx, case):
    kind, w, A, rmax, dr0, levels = case['kind'], case['w'], case['A'], case['rmax'], case['dr0'], int(case['levels'])
    fam = []
    d = None
    how = case.get('how', 'fresh')
    for lv in range(levels):
        dr = dr0 / 2 ** lv
        L = int(round(rmax / dr))
        # the number of points as a numpy integer of any width (a value read from a binary header, len() of an array ...)
        carrier = [int, np.int64, np.int32, np.int16][int(round(w * 1000 + rmax * 10 + levels)) % 4]
        Lc = carrier(L) if (carrier is not np.int16 or L < 32000) else int(L)
        ctx.count('length_carrier', type(Lc).__name__)
        if how == 'fresh_positional':
            d = pyPRISM.Domain(Lc, dr)                # Domain(length, dr, dk): the documented argument order
        elif how == 'fresh' or d is None:
            d = pyPRISM.Domain(length=Lc, dr=dr) if how != 'fresh_dk' else pyPRISM.Domain(length=Lc, dk=math.pi / rmax)
        elif how == 'fresh_dk':
            d = pyPRISM.Domain(length=Lc, dk=math.pi / rmax)
        elif how == 'refine_dr_then_length':
            d.dr = dr
            d.length = Lc
        elif how == 'refine_length_then_dr':
            d.length = Lc
            d.dr = dr
        else:                                  # at fixed r_max dk does not change: only the length has to be doubled
            d.length = Lc
            d.dk = math.pi / rmax
        r, k = np.asarray(d.r), np.asarray(d.k)
        f, F, V = analytic(kind, w, A, r, k)
        api = case.get('api', 'array')
        if api == 'stacked':
            # several functions transformed in one call (rows of a 2-D array)
            if L <= 512 and lv == 0:
                # as many functions as grid points: a square stack
                Fn = np.asarray(d.to_fourier(np.stack([f * (1 + i) for i in range(L)])))[0]
                fn = np.asarray(d.to_real(np.stack([F * (1 + i) for i in range(L)])))[0]
                ctx.hook('square_stack')
            elif lv == levels - 1 and L * 5 <= 2 ** 21:
                # a LARGE stack (more than 2**16 numbers, a row count that is no multiple of anything convenient): the function
                # under test is the last row
                nrows = 2 ** 16 // L + 3 + (lv % 2)
                Fn = np.asarray(d.to_fourier(np.stack([f * (1 + (i % 3)) for i in range(nrows - 1)] + [f])))[-1]
                fn = np.asarray(d.to_real(np.stack([F * (1 + (i % 3)) for i in range(nrows - 1)] + [F])))[-1]
                ctx.hook('large_stack')
            else:
                Fn = np.asarray(d.to_fourier(np.stack([f, 2 * f, 0 * f])))[0]
                fn = np.asarray(d.to_real(np.stack([F, -F])))[0]
        elif api in ('ma_real', 'ma_nonspatial'):
            # through the MatrixArray entry points; 'ma_nonspatial' = an array that lost its flag in arithmetic with a density array
            from pyPRISM.core.MatrixArray import MatrixArray
            from pyPRISM.core.Space import Space
            # rank 1 .. 6: the function under test sits in one (symmetric) pair of a matrix whose other pairs hold multiples of it
            rk = [1, 1, 2, 3, 5, 6][int(round(w * 1000 + rmax * 10)) % 6]
            ty = list('ABCDEF')[:rk]
            wgt = np.fromfunction(lambda i, j: 1.0 + ((i + 1) * (j + 1)) % 4, (rk, rk))
            a_, b_ = rk - 1, rk // 2
            wgt[a_, b_] = wgt[b_, a_] = 1.0
            ctx.count('matrixarray_rank', rk)
            m1 = MatrixArray(length=L, rank=rk, data=np.array(f)[:, None, None] * wgt[None, :, :], space=(Space.Real if api == 'ma_real' else Space.NonSpatial), types=ty)
            d.MatrixArray_to_fourier(m1)
            Fn = np.array(m1.data[:, a_, b_])
            m2 = MatrixArray(length=L, rank=rk, data=np.array(F)[:, None, None] * wgt[None, :, :], space=(Space.Fourier if api == 'ma_real' else Space.NonSpatial), types=ty)
            d.MatrixArray_to_real(m2)
            fn = np.array(m2.data[:, b_, a_])
        else:
            Fn = d.to_fourier(f)
            fn = d.to_real(F)
        keepF = np.array(Fn, copy=True)
        keepf = np.array(fn, copy=True)
        # further transforms on the same Domain (the caller still holds Fn and fn)
        other1 = d.to_fourier(np.cos(r) * f)
        other2 = d.to_real(F * 0.5)
        ctx.hook('result_independence_probe')
        if not np.array_equal(Fn, keepF) or not np.array_equal(fn, keepf) or np.shares_memory(Fn, other1) or np.shares_memory(fn, other2):
            ctx.violation('cont:result-overwritten-by-later-transform', '%s: an array returned by to_fourier/to_real changed (or shares memory) after a later transform on the same Domain (L=%d)' % (kind, L))
            return
        # one work buffer refilled in place between two calls (a sweep over widths writes each function into the same array):
        # the transform is a function of the CONTENTS handed over, not of the array object
        ctx.hook('refilled_buffer_probe')
        buf = np.array(np.cos(r) * f)
        d.to_fourier(buf)
        buf[:] = f
        again = np.asarray(d.to_fourier(buf))
        bufk = np.array(F * 0.5)
        d.to_real(bufk)
        bufk[:] = F
        again_r = np.asarray(d.to_real(bufk))
        if not np.array_equal(again, np.asarray(d.to_fourier(np.array(f)))) or not np.array_equal(again_r, np.asarray(d.to_real(np.array(F)))):
            ctx.violation('cont:stale-result-for-refilled-buffer', '%s: transforming one array object twice, with its contents changed in place in between, returns something else than the transform of the current contents (L=%d)' % (kind, L))
            return
        fam.append({'dr': dr, 'L': L, 'r': r, 'k': k, 'f': f, 'F': F, 'V': V, 'Fn': np.asarray(Fn), 'fn': np.asarray(fn)})
    ctx.hook('family')
    n0 = fam[0]['L']
    k0 = fam[0]['k']
    for m in fam[1:]:
        if not np.allclose(m['k'][:n0], k0, rtol=1e-12):
            ctx.violation('cont:k-grid-changes-under-refinement', 'k grid differs between refinement levels at fixed r_max (dk != pi/r_max?)')
            return
    # fixed wavenumbers: resolved by the coarse grid (k*dr0 <= 0.8) and where the transform is not negligible
    Fex = fam[0]['F']
    scale = np.abs(Fex).max()
    sel = np.where((k0 * dr0 <= 0.8))[0]
    sel = sel[:: max(1, len(sel) // 60)]
    ctx.hook('fixed_k_points', len(sel))
    K = 2.0 / w
    errs = np.array([np.abs(m['Fn'][:n0] - Fex)[sel] / scale for m in fam])        # levels x points
    emax = errs.max(axis=1)
    label = '%s(w=%.3g,A=%.3g) r_max=%g dr0=%g' % (kind, w, A, rmax, dr0)
    # (i) first-order envelope
    for lv, m in enumerate(fam):
        ctx.observe('forward_e/(K dr)', emax[lv] / (K * m['dr']))
        if not emax[lv] <= K * m['dr']:
            j = int(sel[int(errs[lv].argmax())])
            ctx.violation('cont:forward-error-exceeds-first-order-envelope', '%s: |to_fourier(f) - F_exact|/max|F| = %.3g at k=%.4g with dr=%g exceeds K*dr = %.3g (numerical %.6g, exact %.6g)' % (
                label, emax[lv], k0[j], m['dr'], K * m['dr'], m['Fn'][j], Fex[j]))
            break
    # (ii) shrinks under refinement.  Judged in the max norm over the fixed wavenumbers (at an isolated k the
    # first-order coefficient can vanish, so point-wise ratios are meaningless there); point-wise only "not worse".
    above = errs[0] > 50 * FLOOR
    if emax[0] > 50 * FLOOR:
        if not np.all(errs[-1] <= np.maximum(errs[0], 0.1 * emax[0])):
            ctx.violation('cont:forward-error-does-not-shrink', '%s: at some fixed k the error on the finest grid is above the coarsest-grid error' % label)
        for lv in range(levels - 1):
            if emax[lv + 1] > 20 * FLOOR:
                ratio = emax[lv + 1] / emax[lv]
                ctx.observe('forward_ratio/0.65', ratio / 0.65)
                if not ratio < 0.65:        # first order gives 0.5; a higher-order scheme gives less, which the property allows
                    ctx.violation('cont:forward-error-ratio-not-first-order', '%s: max error over fixed k goes %.3g -> %.3g under dr -> dr/2 (ratio %.3g, expected ~0.5)' % (label, emax[lv], emax[lv + 1], ratio))
                    break
    # (iii) Richardson limit at second order
    ctx.hook('richardson')
    rich = []
    for lv in range(levels - 1):
        lim = 2 * fam[lv + 1]['Fn'][:n0] - fam[lv]['Fn'][:n0]
        rich.append(float((np.abs(lim - Fex)[sel] / scale).max()))
    env = [1.0 * (fam[lv]['dr'] / w) ** 2 + 10 * FLOOR for lv in range(levels - 1)]
    for lv in range(levels - 1):
        ctx.observe('richardson/envelope', rich[lv] / env[lv])
        if not rich[lv] <= env[lv]:
            ctx.violation('cont:richardson-limit-off', '%s: extrapolated to_fourier differs from the closed form by %.3g of max|F| on the pair dr=%g,%g (second-order envelope %.3g): wrong absolute normalisation?' % (
                label, rich[lv], fam[lv]['dr'], fam[lv + 1]['dr'], env[lv]))
            break
    # k -> 0: the quadratic extrapolation of the numerical transform tends to that of the exact transform (discretisation
    # error only) and, when the three lowest k resolve the curvature of F, to the volume integral itself
    ctx.hook('k0_limit')
    V = fam[0]['V']
    q_exact = quad0(k0, Fex)
    e0 = [abs(quad0(m['k'], m['Fn']) - q_exact) / abs(V) for m in fam]
    for lv, m in enumerate(fam):
        ctx.observe('k0_e/(K dr)', e0[lv] / (K * m['dr']))
        if not e0[lv] <= K * m['dr']:
            ctx.violation('cont:k0-limit', '%s: quadratic extrapolation of to_fourier(f) to k=0 is %.6g, of the closed form %.6g (volume integral %.6g, dr=%g)' % (label, quad0(m['k'], m['Fn']), q_exact, V, m['dr']))
            break
    if e0[0] > 50 * FLOOR and not e0[-1] < 0.75 * e0[0]:
        ctx.violation('cont:k0-limit-does-not-improve', '%s: k->0 error %.3g on the finest grid vs %.3g on the coarsest' % (label, e0[-1], e0[0]))
    lim0 = abs(2 * quad0(fam[-1]['k'], fam[-1]['Fn']) - quad0(fam[-2]['k'], fam[-2]['Fn']) - q_exact) / abs(V)
    ctx.observe('k0_richardson/envelope', lim0 / ((fam[-2]['dr'] / w) ** 2 + 10 * FLOOR))
    if not lim0 <= (fam[-2]['dr'] / w) ** 2 + 10 * FLOOR:
        ctx.violation('cont:k0-richardson-limit-off', '%s: extrapolated (dr->0) k->0 value differs from the closed form by %.3g of the volume integral' % (label, lim0))
    if abs(q_exact - V) <= 1e-3 * abs(V):
        ctx.hook('k0_volume_integral')
        if not abs(quad0(fam[-1]['k'], fam[-1]['Fn']) - V) <= (K * fam[-1]['dr'] + 2e-3) * abs(V):
            ctx.violation('cont:k0-volume-integral', '%s: k->0 value %.6g vs volume integral %.6g' % (label, quad0(fam[-1]['k'], fam[-1]['Fn']), V))
    # backward transform at fixed r (gaussian / exponential)
    if kind in ('gauss', 'exp'):
        ctx.hook('backward_family')
        fscale = np.abs(fam[0]['f']).max()
        idx0 = np.arange(3, n0 // 2, max(1, n0 // 60))          # coarse indices, r = (i+1) dr0 >= 4 dr0
        berr = []
        for lv, m in enumerate(fam):
            idx = (idx0 + 1) * 2 ** lv - 1
            berr.append(np.abs(m['fn'][idx] - m['f'][idx]) / fscale)
        berr = np.array(berr)
        rr = fam[0]['r'][idx0]
        Kb = 1.0 / rr + 2.0 / w
        for lv, m in enumerate(fam):
            ctx.observe('backward_e/(K dr)', (berr[lv] / (Kb * m['dr'])).max())
            if not np.all(berr[lv] <= Kb * m['dr'] + 10 * FLOOR):
                i = int(np.argmax(berr[lv] / Kb))
                ctx.violation('cont:backward-error-exceeds-first-order-envelope', '%s: |to_real(F_exact) - f|/max|f| = %.3g at r=%.4g with dr=%g exceeds the envelope %.3g' % (label, berr[lv][i], rr[i], m['dr'], Kb[i] * m['dr']))
                break
        bmax = berr.max(axis=1)
        if bmax[0] > 1e-4:
            for lv in range(levels - 1):
                ratio = bmax[lv + 1] / bmax[lv]
                ctx.observe('backward_ratio/0.7', ratio / 0.7)
                if not ratio < 0.7:
                    ctx.violation('cont:backward-error-ratio-not-first-order', '%s: max backward error goes %.3g -> %.3g under dr -> dr/2 (ratio %.3g)' % (label, bmax[lv], bmax[lv + 1], ratio))
                    break
        blim = []
        for lv in range(levels - 1):
            i1 = (idx0 + 1) * 2 ** (lv + 1) - 1
            i0 = (idx0 + 1) * 2 ** lv - 1
            blim.append(float((np.abs(2 * fam[lv + 1]['fn'][i1] - fam[lv]['fn'][i0] - fam[lv]['f'][i0]) / fscale).max()))
        ctx.observe('backward_richardson/envelope', blim[-1] / (2.0 * (fam[-2]['dr'] / min(w, rr.min())) ** 2 + 1e-4))
        if not blim[-1] <= 2.0 * (fam[-2]['dr'] / min(w, rr.min())) ** 2 + 1e-4:
            ctx.violation('cont:backward-richardson-limit-off', '%s: extrapolated to_real differs from f by %.3g of max|f| (wrong 1/(2 pi^2) normalisation?)' % (label, blim[-1]))
    if emax[0] > 50 * FLOOR:
        ctx.nontrivial(case)
    ctx.count('family', kind)
    ctx.count('rmax', rmax)
    ctx.count('dr0', dr0)
    ctx.count('levels_reached_by', how)
    ctx.count('api', case.get('api', 'array'))
    ctx.sample({'function': kind, 'width': w, 'amplitude': A, 'r_max': rmax, 'dr_levels': [m['dr'] for m in fam], 'max_rel_err_per_level': emax.tolist(),
                'richardson_err': rich, 'k0_err': e0}, limit=6)
