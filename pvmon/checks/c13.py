"""C13 - MatrixArray arithmetic matches per-matrix linear algebra without aliasing.

Monitor shape: post-condition contracts on the real methods (pvmon/ma_contracts.py) evaluated on
every call while random operation sequences run; plus an in-place == out-of-place shadow run.
"""
import numpy as np

import pyPRISM
from pyPRISM.core.MatrixArray import MatrixArray
from pyPRISM.core.IdentityMatrixArray import IdentityMatrixArray
from pyPRISM.core.Space import Space

from .. import suite as SUITE
from .. import ma_contracts as MC
from .. import gen as G

PID = 'C13'
RULE = ('cases = random sequences (<= 6 quick / <= 10 thorough steps) over a pool of MatrixArrays of rank 1-5, length 1-64 with random '
        'space flags; operators + - * / (out-of-place and in-place) with operand kinds MatrixArray / same object / length-1 NonSpatial '
        'MatrixArray / scalar / ndarray, dot, @, @=, invert, get_copy, pair get/set by type names incl. unknown names, IdentityMatrixArray independence histories, caller-supplied data of dtype int64/int32 and Fortran / strided / sliced layouts, length-1 left operands, plus '
        'PRISM.cost evaluations under the same contracts; non-trivial = sequence executed >= 3 contract-checked calls; '
        'distinct = distinct (rank,length,step list) digests')
ASSUMPTIONS = ['numpy elementwise arithmetic, @ and np.linalg.inv applied matrix by matrix are the reference',
               'well-conditioned data (cond < 1e6) for inversion checks']
MINIMA = {'quick': {'ma.__add__': 100, 'ma.__isub__': 100, 'ma.dot': 100, 'ma.invert': 50, 'ma.__setitem__': 100, 'space_mix_refused': 50, 'inplace_vs_outofplace': 100, 'identity.case': 40, 'hostile_data.case': 40},
          'thorough': {'ma.__add__': 3000, 'ma.__isub__': 3000, 'ma.dot': 3000, 'ma.invert': 1000, 'ma.__setitem__': 3000, 'space_mix_refused': 1000, 'inplace_vs_outofplace': 3000, 'identity.case': 2000, 'hostile_data.case': 2000}}
SHARDS = {'quick': 4, 'thorough': 16}
TIME_BUDGET = {'quick': 40, 'thorough': 240}

SPACES = [Space.Real, Space.Fourier, Space.NonSpatial]
BINOPS = ['add', 'sub', 'mul', 'truediv']


def setup(ctx):
    MC.attach(ctx)


def cases(ctx):
    if ctx.mine(1):
        yield {'kind': 'repo_suite'}          # the repository's own tests, run in-process under this check's monitors
    rng = ctx.rng('c13')
    n = ctx.budget(1600, 100000)
    maxsteps = 10 if ctx.thorough() else 6
    for it in range(n):
        if it % 20 == 3:
            yield {'kind': 'hostile_data', 'rank': int(rng.integers(1, 6)), 'L': int(rng.choice([1, 2, 5, 16, 33])), 'seed': int(rng.integers(0, 2 ** 31))}
            continue
        if it % 20 == 7:
            yield {'kind': 'identity', 'rank': int(rng.integers(1, 6)), 'L': int(rng.choice([1, 2, 5, 16, 64])), 'seed': int(rng.integers(0, 2 ** 31))}
            continue
        if it % 40 == 39:
            yield {'kind': 'cost', 'seed': int(rng.integers(0, 2 ** 31)), 'rank': int(rng.integers(1, 4))}
            continue
        yield {'kind': 'seq', 'rank': int(rng.integers(1, 6)), 'L': int(rng.choice([1, 2, 3, 7, 16, 33, 64, int(rng.integers(1, 65))])),
               'seed': int(rng.integers(0, 2 ** 31)), 'nsteps': int(rng.integers(1, maxsteps + 1))}


def wellcond(rng, L, n):
    a = rng.normal(size=(L, n, n)) * 0.3
    a = (a + np.transpose(a, (0, 2, 1))) / 2
    a += np.eye(n) * float(rng.choice([-1, 1])) * rng.uniform(2, 4)
    return a


def mk(rng, L, n, types, space):
    return MatrixArray(length=L, rank=n, data=wellcond(rng, L, n), space=space, types=types)


def run_cost(ctx, case):
    rng = np.random.default_rng(case['seed'])
    sp = G.easy_spec(rng, rank=case['rank'], L=int(rng.choice([32, 64])), dr=0.1)
    p = G.build(sp).createPRISM()
    n = 0
    for _ in range(3):
        x = rng.normal(size=sp['L'] * len(sp['types']) ** 2) * 0.2
        with np.errstate(all='ignore'):
            try:
                p.cost(x)
            except np.linalg.LinAlgError:
                continue
        n += 1
    pyPRISM.calculate.structure_factor(p)
    ctx.hook('cost_under_contracts', n)
    ctx.nontrivial(['cost', case['seed']])


def is_identity(m, n, L):
    d = np.asarray(m.data)
    return d.shape == (L, n, n) and np.array_equal(d, np.broadcast_to(np.eye(n), (L, n, n)))


def run_identity(ctx, case):
    """IdentityMatrixArray is a MatrixArray filled with identity matrices: every instance is independent of every other"""
    rng = np.random.default_rng(case['seed'])
    n, L = int(case['rank']), int(case['L'])
    types = list('ABCDE')[:n]
    sp = SPACES[int(rng.integers(0, 3))]
    I1 = IdentityMatrixArray(length=L, rank=n, space=sp, types=types)
    I2 = IdentityMatrixArray(length=L, rank=n, space=sp, types=types)
    ctx.hook('identity.case')
    for name, I in (('first', I1), ('second', I2)):
        if not is_identity(I, n, L):
            ctx.violation('ma:identity-not-identity', 'a freshly constructed IdentityMatrixArray(rank=%d,length=%d) is not the identity (%s instance)' % (n, L, name))
            return
    A = mk(rng, L, n, types, sp)
    for form, res in (('A.dot(I)', A.dot(I1)), ('I.dot(A)', I1.dot(A)), ('A @ I', A @ I1)):
        if not np.allclose(res.data, A.data, rtol=1e-14, atol=0):
            ctx.violation('ma:identity-dot', '%s != A' % form)
            return
    steps = []
    for step in range(int(rng.integers(1, 5))):
        op = str(rng.choice(['iadd', 'isub', 'imul', 'itruediv', 'setitem', 'setMatrix', 'sub_out', 'invert_in', 'dot_in']))
        steps.append(op)
        with np.errstate(all='ignore'):
            if op == 'iadd':
                I1 += float(rng.uniform(0.5, 2))
            elif op == 'isub':
                I1 -= A
            elif op == 'imul':
                I1 *= float(rng.uniform(2, 3))
            elif op == 'itruediv':
                I1 /= float(rng.uniform(2, 3))
            elif op == 'setitem':
                a, b = [str(t) for t in rng.choice(types, 2)]
                I1[a, b] = rng.normal(size=L)
            elif op == 'setMatrix':
                I1.setMatrix(int(rng.integers(0, L)), rng.normal(size=(n, n)))
            elif op == 'sub_out':
                _ = I1 - A
            elif op == 'invert_in':
                I1.data = wellcond(rng, L, n)
                I1.invert(inplace=True)
            else:
                I1.dot(A, inplace=True)
        # a modified identity array is an ordinary MatrixArray: its inverse is the per-matrix inverse of what it holds NOW
        cur = np.array(I1.data, dtype=float, copy=True)
        if np.all(np.isfinite(cur)):
            try:
                cnd = max(np.linalg.cond(m) for m in cur)
            except np.linalg.LinAlgError:
                cnd = np.inf
            if cnd < 1e6:
                with np.errstate(all='ignore'):
                    inv = I1.invert()
                want = np.array([np.linalg.inv(m) for m in cur])
                if not np.allclose(np.asarray(inv.data, dtype=float), want, rtol=1e-9, atol=1e-9 * np.abs(want).max()):
                    ctx.violation('ma:value:invert', 'invert() of an IdentityMatrixArray modified by %s differs from the per-matrix inverse of its current data' % steps)
                    return
                if not np.array_equal(np.asarray(I1.data, dtype=float), cur):
                    ctx.violation('ma:outofplace-modified-left', 'invert() changed the IdentityMatrixArray it was called on')
                    return
        I3 = IdentityMatrixArray(length=L, rank=n, space=sp, types=types)
        if not is_identity(I2, n, L):
            ctx.violation('ma:identity-instances-share-data', 'after %s on one IdentityMatrixArray a DIFFERENT instance of the same shape is no longer the identity' % steps)
            return
        if not is_identity(I3, n, L):
            ctx.violation('ma:identity-instances-share-data', 'after %s on one IdentityMatrixArray a newly constructed one is not the identity' % steps)
            return
        if np.shares_memory(I3.data, I2.data) or np.shares_memory(I1.data, I2.data):
            ctx.violation('ma:identity-instances-share-data', 'two IdentityMatrixArray instances share memory')
            return
    ctx.nontrivial(['identity', n, L, steps])


def run_hostile_data(ctx, case):
    """caller-supplied data of unusual dtype / memory layout, and a length-1 LEFT operand (the shape of the density arrays):
    every call still goes through the contracts of ma_contracts"""
    rng = np.random.default_rng(case['seed'])
    n, L = int(case['rank']), int(case['L'])
    types = list('ABCDE')[:n]
    sp = SPACES[int(rng.integers(0, 3))]
    ctx.hook('hostile_data.case')
    base = wellcond(rng, L, n)
    ints = np.round(base * 3).astype(np.int64)
    for l in range(L):
        ints[l] += np.eye(n, dtype=np.int64) * int(np.sign(ints[l, 0, 0]) or 1) * 4
    layouts = {
        'int64': ints,
        'int32': ints.astype(np.int32),
        'fortran': np.array(base, order='F'),
        'transposed_build': np.array([[base[:, i, j] for j in range(n)] for i in range(n)]).T,       # (L,n,n) view with exotic strides
        'slice_of_larger': np.concatenate([base, base], axis=1)[:, :n, :][:, :, :n] if n > 0 else base,
        'every_second': np.repeat(base, 2, axis=0)[::2],
    }
    ref = {k: np.array(v, dtype=float) for k, v in layouts.items()}
    B = mk(rng, L, n, types, sp)
    one = MatrixArray(length=1, rank=n, data=wellcond(rng, 1, n), space=Space.NonSpatial, types=types)
    for name, data in layouts.items():
        A = MatrixArray(length=L, rank=n, data=data, space=sp, types=types)
        with np.errstate(all='ignore'):
            for op in ('__add__', '__sub__', '__mul__', '__truediv__'):
                getattr(A, op)(B)
                getattr(A, op)(2.5)
                getattr(A, op)(one)
            A.dot(B)
            A @ B
            tol = 1e-4 if name == 'float32' else 1e-10
            inv = A.invert()                       # contract: per-matrix np.linalg.inv of the ORIGINAL values
            want = np.array([np.linalg.inv(ref[name][l]) for l in range(L)])
            if not np.allclose(np.asarray(inv.data, dtype=float), want, rtol=tol, atol=tol):
                ctx.violation('ma:value:invert', 'invert() of a MatrixArray holding %s data differs from per-matrix np.linalg.inv by %.3g' % (name, float(np.abs(np.asarray(inv.data, dtype=float) - want).max())))
                return
            A2 = MatrixArray(length=L, rank=n, data=np.array(data), space=sp, types=types)
            r2 = A2.invert(inplace=True)
            if not np.allclose(np.asarray(r2.data, dtype=float), want, rtol=tol, atol=tol):
                ctx.violation('ma:value:invert', 'invert(inplace=True) of a MatrixArray holding %s data differs from per-matrix np.linalg.inv by %.3g' % (name, float(np.abs(np.asarray(r2.data, dtype=float) - want).max())))
                return
            a, b = types[0], types[-1]
            v = rng.normal(size=L)
            A3 = MatrixArray(length=L, rank=n, data=np.array(data, dtype=float, order='F' if name == 'fortran' else 'C'), space=sp, types=types)
            A3[a, b] = v
            if not (np.array_equal(A3[a, b], v) and np.array_equal(A3[b, a], v)):
                ctx.violation('ma:set-then-get', 'pair assignment on %s data not readable from both orders' % name)
                return
    # length-1 LEFT operand: result must broadcast like the per-matrix operation
    with np.errstate(all='ignore'):
        for op in ('__add__', '__sub__', '__mul__', '__truediv__'):
            res = getattr(one, op)(B)
            want = {'__add__': np.add, '__sub__': np.subtract, '__mul__': np.multiply, '__truediv__': np.true_divide}[op](np.asarray(one.data), np.asarray(B.data))
            if np.asarray(res.data).shape != want.shape or not np.allclose(res.data, want, rtol=1e-13, atol=0, equal_nan=True):
                ctx.violation('ma:value:%s' % op, 'length-1 MatrixArray %s full MatrixArray does not broadcast to the per-matrix result' % op)
                return
    ctx.nontrivial(['hostile_data', n, L, case['seed']])


def run_case(ctx, case):
    if case.get('kind') == 'repo_suite':
        return SUITE.run(ctx, pattern='[MDS]*_test.py')      # MatrixArray, Domain, System, ... (the solving tests take minutes under per-operation references)
    if case['kind'] == 'cost':
        return run_cost(ctx, case)
    if case['kind'] == 'hostile_data':
        return run_hostile_data(ctx, case)
    if case['kind'] == 'identity':
        return run_identity(ctx, case)
    rng = np.random.default_rng(case['seed'])
    n, L = int(case['rank']), int(case['L'])
    types = list('ABCDE')[:n]
    before = sum(v for k, v in ctx.hooks.items() if k.startswith('ma.'))
    # pool "out" is driven with out-of-place operators, pool "inp" with the in-place forms
    spaces = [SPACES[int(rng.integers(0, 3))] for _ in range(3)]
    if rng.random() < 0.6:
        spaces = [spaces[0]] * 3          # compatible pool most of the time, so sequences get long
    datas = [wellcond(rng, L, n) for _ in range(3)]
    def tcont():
        # the same labels handed over in different containers (a list here, a tuple or a numpy array there)
        c = int(rng.integers(0, 4))
        return list(types) if c < 2 else (tuple(types) if c == 2 else np.array(types))

    def make(d, s, ident):
        if not ident:
            return MatrixArray(length=L, rank=n, data=np.array(d), space=s, types=tcont())
        # the shipped subclass, brought to the same content through arithmetic (as PRISM.cost does with I - Omega C)
        m = IdentityMatrixArray(length=L, rank=n, space=s, types=tcont())
        with MC.paused():
            m *= 0.0
            m += np.array(d)
        return m
    ident = [bool(rng.random() < 0.25) for _ in range(3)]
    ctx.count('identity_subclass_operands', sum(ident))
    out = [make(d, s, f) for d, s, f in zip(datas, spaces, ident)]
    inp = [make(d, s, f) for d, s, f in zip(datas, spaces, ident)]
    steps = []
    for step in range(int(case['nsteps'])):
        kind = str(rng.choice(['bin', 'bin', 'bin', 'dot', 'invert', 'copy', 'setget', 'unknown']))
        i = int(rng.integers(0, 3))
        if kind == 'bin':
            op = str(rng.choice(BINOPS))
            ok_kinds = ['ma', 'self', 'ma1', 'scalar', 'ndarray', 'ndarray_nn']
            okind = str(rng.choice(ok_kinds))
            j = int(rng.integers(0, 3))
            if okind == 'ma' and j == i:
                okind = 'self'

            def operand(pool):
                if okind == 'ma':
                    return pool[j]
                if okind == 'self':
                    return pool[i]
                return other
            other = None
            if okind == 'ma1':
                other = MatrixArray(length=1, rank=n, data=wellcond(rng, 1, n), space=Space.NonSpatial, types=types)
            elif okind == 'scalar':
                other = float(rng.choice([-2.5, 0.5, 3.0, 1e-3, 1.0, 0.0 if op in ('add', 'sub') else 1.0]))
            elif okind == 'ndarray':
                other = wellcond(rng, L, n)
            elif okind == 'ndarray_nn':
                other = wellcond(rng, 1, n)[0]
            steps.append(['bin', op, i, okind, j])
            mix = okind in ('ma', 'self') and not MC.spaces_ok(out[i].space, operand(out).space)
            with np.errstate(all='ignore'):
                if mix:
                    for pool, nm in ((out, '__%s__' % op), (inp, '__i%s__' % op)):
                        try:
                            getattr(pool[i], nm)(operand(pool))
                        except (AssertionError, ValueError, TypeError):
                            ctx.hook('space_mix_refused')
                        # (acceptance is reported by the contract itself)
                    continue
                res = getattr(out[i], '__%s__' % op)(operand(out))
                r2 = getattr(inp[i], '__i%s__' % op)(operand(inp))
            if isinstance(res, MatrixArray):
                out[i] = res
            if isinstance(r2, MatrixArray):
                inp[i] = r2
        elif kind == 'dot':
            j = int(rng.integers(0, 3))
            form = str(rng.choice(['dot', 'matmul']))
            steps.append(['dot', form, i, j])
            mix = not MC.spaces_ok(out[i].space, out[j].space)
            if mix:
                for pool, call in ((out, lambda p: p[i].dot(p[j]) if form == 'dot' else p[i] @ p[j]),
                                   (inp, lambda p: p[i].dot(p[j], inplace=True) if form == 'dot' else p[i].__imatmul__(p[j]))):
                    try:
                        call(pool)
                    except (AssertionError, ValueError, TypeError):
                        ctx.hook('space_mix_refused')
                continue
            if form == 'dot':
                out[i] = out[i].dot(out[j])
                r2 = inp[i].dot(inp[j], inplace=True)
            else:
                out[i] = out[i] @ out[j]
                r2 = inp[i].__imatmul__(inp[j])
            if isinstance(r2, MatrixArray):
                inp[i] = r2
            # keep magnitudes bounded so that later inversions stay well conditioned
            sc = float(np.abs(out[i].data).max())
            if sc > 1e3:
                with MC.paused():
                    out[i] = out[i] / sc
                    inp[i] /= sc
        elif kind == 'invert':
            steps.append(['invert', i])
            with MC.paused():
                if not (np.all(np.isfinite(out[i].data)) and np.all(np.isfinite(inp[i].data))):
                    continue
                try:
                    cond = max(np.linalg.cond(m) for m in out[i].data)
                except np.linalg.LinAlgError:
                    continue
            if not np.isfinite(cond) or cond > 1e6:
                continue
            out[i] = out[i].invert()
            r2 = inp[i].invert(inplace=True)
            if isinstance(r2, MatrixArray):
                inp[i] = r2
        elif kind == 'copy':
            steps.append(['copy', i])
            c = out[i].get_copy()
            with MC.paused():
                c.data[...] = 7.0   # must not leak back
            if np.any(out[i].data == 7.0) and not np.any(inp[i].data == 7.0):
                ctx.violation('ma:copy-aliases', 'writing to a get_copy() changed the original')
            inp[i].get_copy()
        elif kind == 'setget':
            a, b = [str(t) for t in rng.choice(types, 2)]
            v = rng.normal(size=L)
            steps.append(['set', i, a, b])
            out[i][a, b] = v
            inp[i][a, b] = v
            got1, got2 = out[i][a, b], out[i][b, a]
            if not (np.array_equal(got1, v) and np.array_equal(got2, v)):
                ctx.violation('ma:set-then-get', 'MA[a,b]=v then MA[a,b]/MA[b,a] does not return v')
        else:
            a = str(rng.choice(types))
            steps.append(['unknown', i])
            for key in ((a, 'Q'), ('Q', a), ('zz', 'Q')):
                for fn in (lambda: out[i][key], lambda: out[i].__setitem__(key, np.zeros(L))):
                    try:
                        fn()
                    except ValueError:
                        ctx.hook('unknown_type_refused')
                    # acceptance is reported by the contract
        # in-place == out-of-place after every step
        with MC.paused():
            for q in range(3):
                ctx.hook('inplace_vs_outofplace')
                a, b = np.asarray(out[q].data), np.asarray(inp[q].data)
                ok, e = MC.close(b, a, scale=np.abs(a).max() if a.size else None, k=256)
                if a.shape != b.shape or not ok:
                    ctx.violation('ma:inplace-differs-from-outofplace', 'after %s the in-place and out-of-place sequences disagree (rel %.3g); steps=%s' % (steps[-1], e, steps))
                    break
                if out[q].space != inp[q].space:
                    ctx.violation('ma:inplace-space-differs', 'space flags of in-place/out-of-place sequences differ after %s' % (steps[-1],))
    # ---- the other read paths: positional getters, per-matrix getter, and the deprecated itercurve (tutorial NB8 still uses it)
    with MC.paused():
        m = out[0]
        D0 = np.array(m.data, copy=True)
        ctx.hook('getter_probe')
        import warnings as _w
        with _w.catch_warnings():
            _w.simplefilter('ignore')
            a = [(tuple(ij), tuple(str(x) for x in t), np.array(v)) for ij, t, v in m.itercurve()]
        b = [(tuple(ij), tuple(str(x) for x in t), np.array(v)) for ij, t, v in m.iterpairs()]
        if len(a) != len(b) or any(x[0] != y[0] or x[1] != y[1] or not np.array_equal(x[2], y[2], equal_nan=True) for x, y in zip(a, b)):
            ctx.violation('ma:itercurve-differs-from-iterpairs', 'itercurve() does not yield what iterpairs() yields (rank %d)' % n)
        want = [(i, j) for i in range(n) for j in range(n) if i <= j]
        if [x[0] for x in b] != want or any(not np.array_equal(x[2], D0[:, x[0][0], x[0][1]], equal_nan=True) for x in b):
            ctx.violation('ma:iterpairs-wrong', 'iterpairs() does not visit the upper-triangle pair functions in index order with their data (rank %d)' % n)
        i, j, kx = int(rng.integers(0, n)), int(rng.integers(0, n)), int(rng.integers(0, L))
        if not np.array_equal(np.asarray(m.get(i, j)), D0[:, i, j], equal_nan=True) or not np.array_equal(np.asarray(m.getMatrix(kx)), D0[kx], equal_nan=True):
            ctx.violation('ma:positional-getter-wrong', 'get(%d,%d) / getMatrix(%d) do not return the stored pair function / matrix' % (i, j, kx))
        if not np.array_equal(np.asarray(m.data), D0, equal_nan=True):
            ctx.violation('ma:getter-modifies-array', 'iterating / reading a MatrixArray changed its data')
    after = sum(v for k, v in ctx.hooks.items() if k.startswith('ma.'))
    if after - before >= 3:
        ctx.nontrivial([n, L, steps])
    ctx.count('rank', n)
    ctx.sample({'rank': n, 'length': L, 'spaces': [s.name for s in spaces], 'steps': steps}, limit=3)
