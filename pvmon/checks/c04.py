"""C04 - Results are invariant under physically meaningless reformulations of the input.

Monitor shape: metamorphic monitor over paired executions of the real code.  A base system is solved; a related
system (types permuted / one species split into two labelled species / all energies and kT scaled) is built
through the public API and the relation is decided through the MAPPED ROOT, because roots are not unique:
 (a) the related system's cost function evaluated at the mapped root of the base system must vanish
     (||cost2(map(x1))|| <= 1e-9 + 1e3 ||y1||), and
 (b) the related system solved from that mapped guess must give pair_correlation / structure_factor / pmf equal
     to the mapped base results within 1e-6 + 1e4 (||y1|| + ||y2||).
Independent zero-guess solves are only counted (same / different root): roots are not unique.
"""
import copy
import itertools

import numpy as np

import pyPRISM

from .. import core
from .. import refmodel as R
from .. import gen as G

PID = 'C04'
RULE = ('cases = base systems of rank 1-3 (hard-core family potentials incl. attractive tails, PY/HNC/MSA closures, SingleSite/Gaussian/FJC/Ring omegas, '
        'tabulated cross omegas) x relation in {every permutation of the type list, split of one monatomic species into A/A\' with ratio 0.05..0.95 or log-uniform down to 1e-8 (tracer), '
        'split of an even-N Gaussian/FJC homopolymer into the halves of a symmetric diblock with exact block omegas (FromArray), energy+kT rescaling by '
        'lambda in 0.1..10}; only pairs whose base solve converges (fatol 1e-10) are judged; non-trivial = relation evaluated on a converged base with >= 2 '
        'compared result functions; distinct = distinct case digests')
ASSUMPTIONS = ['block omegas: omega_AA = omega_BB = (2/N) sum_{i,j in A} E^|i-j|, omega_AB = (1/N) sum_{i in A, j in B} E^|i-j| (the 1/(N_A+N_B), single-direction convention of pyPRISM)',
               'high_value of hard cores is not rescaled (it stands for infinity); pmf compared where g_ref > 1e-3']
MINIMA = {'quick': {'relation.mapped_root_residual': 60, 'relation.results_compared': 60, 'kind.permutation': 15, 'kind.split_monatomic': 10, 'kind.split_diblock': 8, 'kind.rescale': 15},
          'thorough': {'relation.mapped_root_residual': 1500, 'relation.results_compared': 1500, 'kind.permutation': 300, 'kind.split_monatomic': 300, 'kind.split_diblock': 200, 'kind.rescale': 300}}
SHARDS = {'quick': 8, 'thorough': 16}
TIME_BUDGET = {'quick': 40, 'thorough': 300}

TIGHT = ('krylov', {'line_search': 'wolfe', 'fatol': 1e-10, 'maxiter': 120})


def cases(ctx):
    rng = ctx.rng('c04')
    n = ctx.budget(240, 6000)
    kinds = ['permutation', 'split_monatomic', 'split_diblock', 'rescale']
    for it in range(n):
        yield {'kind': kinds[it % 4], 'seed': int(rng.integers(0, 2 ** 31))}


def solve_tight(p, guess=None):
    res = G.solve(p, TIGHT[0], dict(TIGHT[1]), guess=guess, max_evals=2500)
    if res is not None and res.success:
        return res
    res = G.solve(p, 'anderson', {'fatol': 1e-10, 'maxiter': 2000}, guess=guess, max_evals=2500)
    if res is not None and res.success:
        return res
    return None


def results(p, types, full=False):
    """named pair functions of a solved object, every one read through the type LABELS (both orders)"""
    out = {}
    calc = pyPRISM.calculate
    with np.errstate(all='ignore'):
        todo = [('g', calc.pair_correlation, {}), ('S', calc.structure_factor, {}), ('pmf', calc.pmf, {})]
        if full:
            todo += [('Sn', calc.structure_factor, {'normalize': False}), ('B2', calc.second_virial, {})]
            if len(types) >= 2:
                todo += [('psiH', calc.solvation_potential, {}), ('psiP', calc.solvation_potential, {'closure': 'PY'}), ('chi', calc.chi, {}), ('spin', calc.spinodal_condition, {})]
        for name, fn, kw in todo:
            q = copy.deepcopy(p) if full else p            # each quantity from the solved state (history effects are C06's subject)
            v = fn(q, **kw)
            out[name] = {(a, b): (None if v[a, b] is None else np.array(v[a, b], dtype=float)) for a in types for b in types}
    return out


def block_omegas(kind, N, s, k):
    """exact intramolecular correlations of the two halves of a symmetric diblock of total length N"""
    if kind == 'G':
        E = np.exp(-k * k * s * s / 6.0)
    else:
        E = np.sin(k * s) / (k * s)
    h = N // 2
    same = np.zeros_like(k)
    cross = np.zeros_like(k)
    for i in range(N):
        for j in range(N):
            t = abs(i - j)
            if (i < h) == (j < h):
                if i < h:
                    same += E ** t
            elif i < h <= j:
                cross += E ** t
    return (2.0 / N) * same, (1.0 / N) * cross


def base_for(kind, rng):
    if kind == 'split_diblock':
        dr, L = 0.1, 128
        d = G.on_grid(rng, dr, 0.8, 1.2)
        N = int(rng.choice([2, 4, 6, 10, 20]))
        eta = float(rng.uniform(0.02, 0.25))
        ps = G.gen_pot(rng, d, allow=('HS', 'HCLJ', 'EXP'), strength=0.2)
        sp = dict(types=['A'], dr=dr, L=L, d={'A': d}, rho={'A': 6 * eta / np.pi / d ** 3}, kT=float(rng.choice([1.0, 1.5, 2.0])),
                  pot={'A|A': ps}, clo={'A|A': {'t': str(rng.choice(['PY', 'HNC', 'MSA'])), 'hc': True}},
                  om={'A|A': {'t': str(rng.choice(['G', 'FJC'])), 'N': N, 's': d}}, fam='homopolymer', eta=eta)
        return sp
    rank = int(rng.choice([1, 2, 2, 3])) if kind != 'permutation' else int(rng.choice([2, 2, 3]))
    sp = G.easy_spec(rng, rank=rank, L=128, dr=0.1, eta_max=0.22)
    if kind == 'split_monatomic':
        sp['om'][G.pk('A', 'A')] = {'t': 'SS'}
    if kind in ('permutation', 'rescale') and rng.random() < 0.6:
        G.add_cross_omegas(sp, rng, amp=(0.1, 0.6))
    if kind == 'rescale' and rng.random() < 0.4:
        # soft-core fluids (no hard core anywhere: LennardJones / WCA closed without the flag): the only energy scales are epsilon and kT
        for key in sp['pot']:
            sp['pot'][key] = {'t': str(rng.choice(['LJ', 'LJ', 'WCA'])), 'eps': float(rng.uniform(0.15, 0.5))}
            sp['clo'][key] = {'t': str(rng.choice(['PY', 'HNC'])), 'hc': False}
        sp['kT'] = float(rng.choice([1.6, 0.8, 2.5, 1.0]))
        sp['soft'] = True
    if kind in ('permutation', 'rescale'):
        # contact distances given explicitly in some potentials (equal to or one grid step above the additive value): gen.build may then
        # complete the assigned object in place through the reversed key
        h = int(round(sum(sp['rho'].values()) * 1e9)) + sp['L']
        for n_, key in enumerate(sorted(sp['pot'])):
            if (h + n_) % 2 == 0:
                a, b = key.split('|')
                sp['pot'][key]['sigma'] = float(round(G.sigma_of(sp, a, b) + ((h + n_) % 4 // 2) * sp['dr'], 10))
    return sp


def getp(d, a, b):
    return d[G.pk(a, b)] if G.pk(a, b) in d else d[G.pk(b, a)]


def related(kind, sp, rng):
    """returns (spec2, parent: new type -> base type, scale lambda, description)"""
    if kind == 'permutation':
        perms = [p for p in itertools.permutations(sp['types']) if list(p) != sp['types']]
        perm = list(perms[int(rng.integers(0, len(perms)))])
        sp2 = copy.deepcopy(sp)
        sp2['types'] = perm
        # dict keys must follow the new order convention 'x|y' with x before y in the type list
        for name in ('pot', 'clo', 'om'):
            sp2[name] = {}
            for (i, j), (a, b) in G.pairs(perm):
                sp2[name][G.pk(a, b)] = copy.deepcopy(getp(sp[name], a, b))
        return sp2, {t: t for t in perm}, 1.0, 'types %s -> %s' % (sp['types'], perm)
    if kind == 'rescale':
        lam = float(10 ** rng.uniform(-1, 1)) if rng.random() < 0.7 else int(rng.choice([2, 3, 5]))
        if sp.get('soft') and rng.random() < 0.6:
            lam = float(rng.choice([1e5, 1e6, 1e-5, 3e7]))         # the same fluid in other energy units (J/mol instead of kJ/mol ... K instead of reduced units)
        sp2 = copy.deepcopy(sp)
        sp2['kT'] = sp['kT'] * lam            # stays a Python int when kT and the factor are ints
        for ps in sp2['pot'].values():
            if 'eps' in ps:
                ps['eps'] = ps['eps'] * lam
            if ps['t'] in ('HS', 'HCLJ', 'EXP'):
                ps['hv'] = ps.get('hv', 1e6) * lam          # the overlap value is an energy parameter like any other
        return sp2, {t: t for t in sp['types']}, lam, 'all epsilon and kT x %.4g' % lam
    if kind == 'split_monatomic':
        frac = float(10 ** rng.uniform(-8, np.log10(0.95))) if rng.random() < 0.5 else float(rng.uniform(0.05, 0.95))
        new = 'Z'
        pos = int(rng.integers(0, len(sp['types']) + 1))
        types2 = list(sp['types'])
        types2.insert(pos, new)
        parent = {t: t for t in sp['types']}
        parent[new] = 'A'
        sp2 = copy.deepcopy(sp)
        sp2['types'] = types2
        sp2['d'][new] = sp['d']['A']
        sp2['rho'][new] = sp['rho']['A'] * frac
        sp2['rho']['A'] = sp['rho']['A'] * (1 - frac)
        for name in ('pot', 'clo', 'om'):
            sp2[name] = {}
            for (i, j), (a, b) in G.pairs(types2):
                pa, pb = parent[a], parent[b]
                if name == 'om' and a != b and pa == pb:
                    sp2[name][G.pk(a, b)] = {'t': 'NI'}          # A and A' sit on different molecules
                else:
                    sp2[name][G.pk(a, b)] = copy.deepcopy(getp(sp[name], pa, pb))
        return sp2, parent, 1.0, 'A -> A (%.3g) + Z (%.3g), type list %s' % (1 - frac, frac, types2)
    if kind == 'split_diblock':
        os_ = sp['om']['A|A']
        k = R.grids(sp['L'], sp['dr'])[1]
        same, cross = block_omegas(os_['t'], os_['N'], os_['s'], k)
        order = ['A', 'B'] if rng.random() < 0.5 else ['B', 'A']
        sp2 = copy.deepcopy(sp)
        sp2['types'] = order
        sp2['d'] = {'A': sp['d']['A'], 'B': sp['d']['A']}
        sp2['rho'] = {'A': sp['rho']['A'] / 2, 'B': sp['rho']['A'] / 2}
        for name in ('pot', 'clo'):
            sp2[name] = {G.pk(a, b): copy.deepcopy(sp[name]['A|A']) for (_, _), (a, b) in G.pairs(order)}
        sp2['om'] = {}
        for (_, _), (a, b) in G.pairs(order):
            sp2['om'][G.pk(a, b)] = {'t': 'ARR', 'w': (same if a == b else cross).tolist()}
        return sp2, {'A': 'A', 'B': 'A'}, 1.0, 'homopolymer %s N=%d -> symmetric diblock %s' % (os_['t'], os_['N'], order)
    raise KeyError(kind)


def map_root(x1, sp, sp2, parent):
    L = sp['L']
    n1, n2 = len(sp['types']), len(sp2['types'])
    X1 = np.asarray(x1).reshape(L, n1, n1)
    X2 = np.empty((L, n2, n2))
    for i, a in enumerate(sp2['types']):
        for j, b in enumerate(sp2['types']):
            X2[:, i, j] = X1[:, sp['types'].index(parent[a]), sp['types'].index(parent[b])]
    return X2.reshape(-1)


def run_case(ctx, case):
    rng = np.random.default_rng(case['seed'])
    kind = case['kind']
    sp = base_for(kind, rng)
    with np.errstate(all='ignore'):
        p1 = G.build(sp).createPRISM()
    r1 = solve_tight(p1)
    if r1 is None:
        raise core.Skip('base solve did not converge')
    y1 = float(np.abs(r1.fun).max())
    sp2, parent, lam, desc = related(kind, sp, rng)
    # the reformulated system is also reached through another configuration path (domain via dk / setters, kT assigned)
    sp2['via'] = str(rng.choice(G.VIAS))
    sp2['kT_via'] = str(rng.choice(['ctor', 'assign']))
    desc += ' [domain via %s, kT via %s]' % (sp2['via'], sp2['kT_via'])
    # ... and under other type LABELS (renaming): other strings, or integers that are not the list positions
    labels = None
    mode = str(rng.choice(['same', 'same', 'strings', 'ints_reversed', 'ints_shifted']))
    if mode == 'strings':
        labels = {t: 'type_' + t.lower() * (i + 1) for i, t in enumerate(sp2['types'])}
    elif mode == 'ints_reversed':
        labels = {t: len(sp2['types']) - 1 - i for i, t in enumerate(sp2['types'])}
    elif mode == 'ints_shifted':
        labels = {t: 10 * (i + 1) + 7 for i, t in enumerate(sp2['types'])}
    desc += ' [labels %s]' % (mode if labels is None else list(labels.values()))
    lab = (lambda t: t) if labels is None else (lambda t: labels[t])
    with np.errstate(all='ignore'):
        p2 = G.build(sp2, labels=labels).createPRISM()
    label = '%s [%s] base %s' % (kind, desc, G.spec_signature(sp))
    ctx.hook('kind.' + kind)
    # ---- (a) the mapped root of the base system is a root of the related system
    xm = map_root(r1.x, sp, sp2, parent)
    with np.errstate(all='ignore'):
        ym = np.asarray(p2.cost(np.array(xm)))
    ctx.hook('relation.mapped_root_residual')
    e = float(np.abs(ym).max())
    # rounding: the cost function forms H from a matrix whose entries span rho_min^2..rho_max^2 and divides by the pair
    # density, so the residual of a tracer species carries noise ~ eps * rho_max/rho_min (measured 1e-16/ratio)
    rmin = min(sp2['rho'].values()) / max(sp2['rho'].values())
    tol = 1e-9 + 1e3 * y1 + 1e-14 / rmin
    ctx.observe('mapped_root_residual/tol', e / tol)
    if not e <= tol:
        ctx.violation('invariance:%s:mapped-root-is-not-a-root' % kind, '%s: the base solution (residual %.3g), mapped to the reformulated system, leaves a residual of %.3g' % (label, y1, e))
        return
    # ---- (b) solve the related system from the mapped guess and compare named results
    r2 = solve_tight(p2, guess=np.array(xm))
    if r2 is None:
        raise core.Skip('related solve did not converge from the mapped root')
    y2 = float(np.abs(r2.fun).max())
    full = not kind.startswith('split')
    res1 = results(p1, sp['types'], full)
    res2 = results(p2, [G.fresh(lab(t)) for t in sp2['types']], full)
    tolr = 1e-6 + 1e4 * (y1 + y2) + 1e-12 / rmin
    ncmp = 0
    which = ['g'] if kind.startswith('split') else [q for q in ('g', 'S', 'pmf', 'Sn', 'B2', 'psiH', 'psiP', 'chi', 'spin') if q in res1]
    for q in which:
        for a in sp2['types']:
            for b in sp2['types']:
                ref = res1[q][parent[a], parent[b]]
                got = res2[q][lab(a), lab(b)]
                if ref is None and got is None:
                    continue                                  # chi / spinodal are defined for unlike pairs only
                if (ref is None) != (got is None) or np.shape(ref) != np.shape(got):
                    ctx.violation('invariance:%s:%s-differs' % (kind, q), '%s: %s[%s,%s] of the reformulated system is %s, of the base system %s' % (label, q, a, b, 'missing' if got is None else 'present with shape %s' % (np.shape(got),), 'missing' if ref is None else 'present with shape %s' % (np.shape(ref),)))
                    return
                ref, got = np.atleast_1d(ref), np.atleast_1d(got)
                if q == 'pmf':
                    m = res1['g'][parent[a], parent[b]] > 1e-3
                    ref, got = lam * ref[m], got[m]
                elif q in ('psiH', 'psiP'):
                    m = np.isfinite(ref) & np.isfinite(got)
                    if q == 'psiP' and not np.array_equal(np.isfinite(ref), np.isfinite(got)):
                        ctx.count('psiP_log_domain_differs', kind)      # 1 + C S C changes sign within rounding: not judged
                    ref, got = lam * ref[m], got[m]                    # an energy: scales with the common factor
                sc = max(float(np.abs(ref).max()) if ref.size else 0.0, 1.0)
                with np.errstate(all='ignore'):
                    err = float(np.nanmax(np.abs(got - ref))) / sc if ref.size else 0.0
                ctx.observe('result_%s/tol' % q, err / tolr)
                ncmp += 1
                if not err <= tolr:
                    ctx.violation('invariance:%s:%s-differs' % (kind, q), '%s: %s[%s,%s] of the reformulated system differs from %s%s[%s,%s] of the base system by %.3g (residuals %.2g, %.2g)' % (
                        label, q, a, b, ('%.4g x ' % lam) if q == 'pmf' and lam != 1 else '', q, parent[a], parent[b], err, y1, y2))
                    return
    ctx.hook('relation.results_compared')
    if kind == 'rescale' and case['seed'] % 3 == 0:
        # the same change of energy units made IN PLACE on the solved object (PRISM.sys.kT and every epsilon / overlap value multiplied by
        # one factor) followed by a second solve from the solution: whether or not the object honours in-place edits, the structure it
        # reports is that of the same fluid
        ctx.hook('relation.rescaled_in_place_on_solved_object')
        lam2 = 3.0
        p1.sys.kT = p1.sys.kT * lam2
        for (i, j), (a, b), U in p1.sys.potential.iterpairs():
            for attr in ('epsilon', 'high_value'):
                if hasattr(U, attr):
                    setattr(U, attr, getattr(U, attr) * lam2)
        r4 = solve_tight(p1, guess=np.array(r1.x))
        if r4 is not None:
            g4 = results(p1, sp['types'])['g']
            err = max(float(np.abs(g4[a, b] - res1['g'][a, b]).max()) for a in sp['types'] for b in sp['types'])
            ctx.observe('rescaled_in_place_g/tol', err / tolr)
            if not err <= tolr:
                ctx.violation('invariance:rescale:solved-object-rescaled-in-place-changes-structure', '%s: after PRISM.sys.kT and every energy parameter of PRISM.sys were multiplied by %g in place and the object was solved again from its solution, g(r) changed by %.3g' % (label, lam2, err))
                return
    # ---- independent zero-guess solve: DIAGNOSTIC ONLY.  The self-consistent equations have several roots (also
    # physical-looking ones with g >= 0, mostly with HNC), so two independently found roots may legitimately differ;
    # the verdict rests on the mapped root (a) and the solve started from it (b).
    p3 = G.build(sp2).createPRISM()
    r3 = solve_tight(p3)
    if r3 is not None:
        res3 = results(p3, sp2['types'])
        y3 = float(np.abs(r3.fun).max())
        err = max(float(np.abs(res3['g'][a, b] - res1['g'][parent[a], parent[b]]).max()) for a in sp2['types'] for b in sp2['types'])
        ctx.count('independent_zero_guess_solve', 'same root' if err <= 1e-6 + 1e4 * (y1 + y3) else 'different root (multi-root system)')
    if ncmp >= 2:
        ctx.nontrivial(case)
    ctx.count('relation', kind)
    ctx.count('base', G.spec_signature(sp))
    ctx.sample({'relation': kind, 'detail': desc, 'base': G.spec_signature(sp), 'residuals': [y1, y2], 'mapped_root_residual': e}, limit=5)
