"""C11 - Analytic omega(k) models equal their defining pair sums and obey the sum rules.

Monitor shape: post-condition contract on the real `calculate` of every omega class (so omegas evaluated
inside createPRISM are covered as well): k is snapshotted, the output compared with the defining double sum
evaluated term by term by refmodel, sum rules are asserted.  The workload adds the k-independence probes,
the small-k / large-k limits, FP-trap replicas and the constructor validity rules of DiscreteKoyama.
"""
import copy
import pickle
import math

import numpy as np

import pyPRISM
from pyPRISM.omega.Gaussian import Gaussian
from pyPRISM.omega.GaussianRing import GaussianRing
from pyPRISM.omega.FreelyJointedChain import FreelyJointedChain
from pyPRISM.omega.NonOverlappingFreelyJointedChain import NonOverlappingFreelyJointedChain
from pyPRISM.omega.DiscreteKoyama import DiscreteKoyama
from pyPRISM.omega.SingleSite import SingleSite
from pyPRISM.omega.NoIntra import NoIntra
from pyPRISM.omega.InterMolecular import InterMolecular

from .. import suite as SUITE
from .. import refmodel as R

PID = 'C11'
RULE = ('cases = (model in Gaussian|GaussianRing|FJC|NFJC|DiscreteKoyama|SingleSite|NoIntra|InterMolecular, N in 2..10^4, sigma/l/lp over the '
        'documented ranges (DiscreteKoyama: lp from lp_min itself up to 630 l, i.e. from the freely-jointed to the rod-like regime), k grid = log grid 1e-4..1e3 | the k grid of a sampled Domain(dr|dk,length) incl. dk=0.001 and length up to 32768 | '
        'random k); each case runs calculate under the contract plus subset / reversed / single-k calls, an FP-trap replica and the limit probes; '
        'DiscreteKoyama also gets invalid-parameter cases; non-trivial = chain model evaluated on >= 8 wavenumbers spanning k*sigma < 0.1 and > 10 or a '
        'Domain grid; distinct = distinct case digests')
ASSUMPTIONS = ['defining sum (1/N) sum_ij w_|i-j|(k) evaluated term by term in double precision is the reference (tolerance 1e-7*N)',
               'DiscreteKoyama: <r_n^2> and <r_n^4> of the documented chain (fixed bond length, free rotation, Boltzmann-weighted bond angle restricted by the no-overlap condition, <cos> fixed by lp) come from an independent step-by-step recursion with Gauss-Legendre bond-angle moments (refmodel.dk_moments); only within 0.1 % of the freely-jointed limit, where the class documents a linearisation, is the object\'s own kernel used in the defining sum',
               'NFJC: only N=3 has an analytic reference; larger N are covered by the sum rules only']
MINIMA = {'quick': {'omega.calculate:G': 100, 'omega.calculate:FJC': 100, 'omega.calculate:RING': 100, 'omega.calculate:DK': 50, 'omega.calculate:trivial': 50,
                    'k_independence_probe': 300, 'dk_invalid_params': 30, 'dk_independent_moment_reference': 100},
          'thorough': {'omega.calculate:G': 700, 'omega.calculate:FJC': 700, 'omega.calculate:RING': 700, 'omega.calculate:DK': 400, 'omega.calculate:trivial': 300,
                       'k_independence_probe': 400, 'dk_invalid_params': 100}}
SHARDS = {'quick': 8, 'thorough': 16}
TIME_BUDGET = {'quick': 70, 'thorough': 280}

_S = {'ctx': None, 'on': True}
CLASSES = [('G', Gaussian), ('RING', GaussianRing), ('FJC', FreelyJointedChain), ('NFJC', NonOverlappingFreelyJointedChain), ('DK', DiscreteKoyama),
           ('SS', SingleSite), ('NI', NoIntra), ('IM', InterMolecular)]


def kind_of(obj):
    if isinstance(obj, InterMolecular):
        return 'IM'
    for k, cls in CLASSES:
        if isinstance(obj, cls):
            return k
    return None


def koyama_ref(obj, k):
    """defining sum with the object's own pair kernel"""
    N = int(obj.length)
    out = np.ones_like(k, dtype=float)
    for n in range(1, N):
        out += (2.0 / N) * (N - n) * np.asarray(obj.koyama_kernel_fourier(k=k, n=n), dtype=float)
    return out


def nfjc3_ref(k, l):
    """N=3 tangent hard-sphere chain: w_1 = sin(kl)/(kl); r_13 = l*sqrt(2-2c), c uniform on [-1,1/2]"""
    x = k * l
    w1 = np.sin(x) / x
    w2 = (np.cos(x) - np.cos(2 * x)) / (1.5 * x * x)
    return 1 + (2.0 / 3.0) * (2 * w1 + w2)


def reference(obj, kind, k):
    if kind == 'G':
        return R.w_ref({'t': 'G', 'N': obj.length, 's': obj.sigma}, k), obj.length
    if kind == 'FJC':
        return R.w_ref({'t': 'FJC', 'N': obj.length, 's': obj.l}, k), obj.length
    if kind == 'RING':
        return R.w_ref({'t': 'RING', 'N': obj.length, 's': obj.sigma}, k), obj.length
    if kind == 'SS':
        return np.ones_like(k), 1
    if kind in ('NI', 'IM'):
        return np.zeros_like(k), 1
    if kind == 'DK':
        # independent of the shipped moment formulas wherever the model is evaluated as documented: the exact second and fourth
        # moments of the chain come from a step-by-step recursion (refmodel.dk_moments).  Within 0.1 % of the freely-jointed
        # limit the class documents a linearised bond-angle average; there the defining sum is taken with the object's own kernel.
        N = int(obj.length)
        if (obj.lp - obj.lp_min) / obj.lp_min >= 0.001 and N <= 400:
            ref = R.dk_ref(obj.sigma, obj.l, N, obj.lp, k)
            if ref is not None:
                _S['ctx'].hook('dk_independent_moment_reference')
                return ref, N
        return koyama_ref(obj, k), N
    if kind == 'NFJC':
        return (nfjc3_ref(k, obj.l) if int(obj.length) == 3 else None), int(obj.length)
    return None, None


def contract(obj, kind, k0, out):
    ctx = _S['ctx']
    ctx.hook('omega.calculate:%s' % (kind if kind in ('G', 'FJC', 'RING', 'DK', 'NFJC') else 'trivial'))
    out = np.asarray(out, dtype=float)
    if out.shape != k0.shape:
        ctx.violation('omega:%s-shape' % kind, '%s.calculate returned shape %s for %s wavenumbers' % (type(obj).__name__, out.shape, k0.shape))
        return
    ref, N = reference(obj, kind, k0)
    fin = np.isfinite(out)
    if not fin.all():
        i = int(np.argmin(fin))
        ctx.violation('omega:%s-not-finite' % kind, '%s(N=%s).calculate is %r at k=%r' % (type(obj).__name__, N, float(out[i]), float(k0[i])))
    if ref is not None:
        tol = 1e-7 * N
        err = np.abs(out - ref)
        with np.errstate(invalid='ignore'):
            e = float(np.nanmax(np.where(fin, err, 0))) if out.size else 0.0
        ctx.observe('omega_vs_defining_sum/(1e-7 N)', e / tol)
        if e > tol:
            i = int(np.nanargmax(np.where(fin, err, 0)))
            region = 'small-k' if k0[i] * max(getattr(obj, 'sigma', 0) or 0, getattr(obj, 'l', 0) or 0, 1e-300) < 0.1 else 'general-k'
            ctx.violation('omega:%s-differs-from-defining-sum:%s' % (kind, region),
                          '%s(N=%s) = %.10g at k=%r, defining pair sum gives %.10g (err %.3g > 1e-7*N)' % (type(obj).__name__, N, float(out[i]), float(k0[i]), float(ref[i]), e))
    if kind not in ('SS', 'NI', 'IM') and fin.any():
        mx = float(out[fin].max())
        if mx > N * (1 + 1e-6):
            i = int(np.argmax(np.where(fin, out, -np.inf)))
            ctx.violation('omega:%s-exceeds-N' % kind, '%s(N=%s) = %.10g > N at k=%r' % (type(obj).__name__, N, mx, float(k0[i])))


def attach(ctx):
    _S['ctx'] = ctx
    for kind, cls in CLASSES:
        if 'calculate' not in cls.__dict__ or '_pvmon_orig_calculate' in cls.__dict__:
            continue
        orig = cls.__dict__['calculate']

        def make(orig):
            def calculate(self, k):
                if _S['ctx'] is None or not _S['on']:
                    return orig(self, k)
                k0 = np.array(k, dtype=float, copy=True)
                out = orig(self, k)
                if not np.array_equal(np.asarray(k), k0):
                    _S['ctx'].violation('omega:modified-k', '%s.calculate modified its k argument' % type(self).__name__)
                if k0.ndim == 1:
                    contract(self, kind_of(self), k0, out)
                return out
            return calculate
        cls._pvmon_orig_calculate = orig
        cls.calculate = make(orig)


def setup(ctx):
    attach(ctx)


# ----------------------------------------------------------------------------- workload

MODELS = ['G', 'FJC', 'RING', 'DK', 'G', 'FJC', 'RING', 'DK', 'SS', 'NI', 'IM', 'NFJC']
NS = [2, 3, 5, 10, 100, 1000, 10000]


def cases(ctx):
    if ctx.mine(1):
        yield {'kind': 'repo_suite'}          # the repository's own tests, run in-process under this check's monitors
    rng = ctx.rng('c11')
    n = ctx.budget(640, 8000)
    for it in range(n):
        m = MODELS[it % len(MODELS)]
        N = int(rng.choice(NS)) if rng.random() < 0.7 else int(rng.integers(2, 300))
        grid = str(rng.choice(['log', 'domain_dr', 'domain_dk', 'random', 'tiny_dk']))
        if m == 'DK':
            N = min(N, 200 if ctx.thorough() else 60)        # calculate() makes N(N-1)/2 kernel evaluations
        if m == 'NFJC':
            N = int(rng.choice([3, 3, 4, 6]))
        if m == 'RING' and N > 1000 and not ctx.thorough():
            N = 1000
        yield {'kind': 'eval', 'model': m, 'N': N, 'grid': grid, 'seed': int(rng.integers(0, 2 ** 31))}
        if it % 8 == 3:
            yield {'kind': 'dk_invalid', 'seed': int(rng.integers(0, 2 ** 31))}


def k_grid(ctx, rng, grid):
    if grid == 'log':
        return np.logspace(-4, 3, 141), 'log 1e-4..1e3'
    if grid == 'random':
        return np.sort(10 ** rng.uniform(-4, 3, size=int(rng.integers(8, 200)))), 'random'
    if grid == 'tiny_dk':
        L = int(rng.choice([4096, 8192, 32768])) if ctx.thorough() else int(rng.choice([1024, 4096]))
        d = pyPRISM.Domain(length=L, dk=float(rng.choice([0.001, 0.002, 0.0005])))
        return np.array(d.k), 'Domain(length=%d,dk=%g)' % (L, d.dk)
    L = int(rng.choice([64, 100, 128, 512, 1000, 1024, 2048, 4096]))
    if grid == 'domain_dr':
        sp = float(rng.choice([0.25, 0.1, 0.05, 0.025, 0.2]))
        d = pyPRISM.Domain(length=L, dr=sp)
    else:
        sp = float(rng.choice([0.1, 0.05, 0.01, 0.005, 0.3]))
        d = pyPRISM.Domain(length=L, dk=sp)
    return np.array(d.k), 'Domain(length=%d,%s=%g)' % (L, 'dr' if grid == 'domain_dr' else 'dk', sp)


def build(model, N, rng):
    O = pyPRISM.omega
    if model == 'G':
        s = float(rng.choice([1.0, 0.5, 1.2, float(10 ** rng.uniform(-0.7, 0.5))]))
        return (O.Gaussian(sigma=s, length=(float(N) if rng.random() < 0.2 else N)), {'sigma': s}, s)
    if model == 'RING':
        s = float(rng.choice([1.0, 0.5, 1.2, float(10 ** rng.uniform(-0.7, 0.5))]))
        return (O.GaussianRing(sigma=s, length=N), {'sigma': s}, s)
    if model == 'FJC':
        l = float(rng.choice([1.0, 0.5, 1.2, float(10 ** rng.uniform(-0.7, 0.5))]))
        cls = O.FJC if rng.random() < 0.3 else O.FreelyJointedChain
        return (cls(length=(float(N) if rng.random() < 0.2 else N), l=l), {'l': l}, l)
    if model == 'NFJC':
        l = 1.0
        cls = O.NFJC if rng.random() < 0.3 else O.NonOverlappingFreelyJointedChain
        return (cls(length=N, l=l), {'l': l}, l)
    if model == 'DK':
        sigma = float(rng.choice([1.0, 1.0, 0.8, 1.3]))
        l = float(sigma * rng.choice([1.0, 1.0, 0.8, 1.5, 0.6]))
        if rng.random() < 0.4:
            # any bond length above sigma/2 and any diameter are valid (two-decimal values, as a user types them)
            sigma = float(round(rng.uniform(0.5, 2.0), 2))
            l = float(round(sigma * rng.uniform(0.55, 2.2), 2))
        lp_min = 4.0 * l ** 3 / (4.0 * l ** 2 - sigma ** 2)
        mode = str(rng.choice(['near', 'at', 'mid', 'mid', 'stiff', 'doc', 'rod', 'rod']))
        if mode == 'near':
            lp = lp_min * (1 + float(rng.uniform(0, 0.0009)))
        elif mode == 'at':
            lp = lp_min * (1 + float(rng.choice([0.0, 1e-12, 1e-9, 1e-7, 1e-5])))      # the freely-jointed limit itself is a valid parameter
        elif mode == 'mid':
            lp = lp_min * float(rng.uniform(1.01, 3.0))
        elif mode == 'stiff':
            lp = lp_min * float(rng.uniform(3.0, 20.0))
        elif mode == 'rod':
            lp = max(lp_min * 3.0, l * float(10 ** rng.uniform(1.3, 2.8)))       # towards the rigid-rod limit the model is meant to reach
        else:
            sigma, l, lp = 1.0, 1.0, 1.43
        return (O.DiscreteKoyama(sigma=sigma, l=l, length=N, lp=lp), {'sigma': sigma, 'l': l, 'lp': lp, 'regime': mode}, l)
    if model == 'SS':
        return (O.SingleSite(), {}, 1.0)
    if model == 'NI':
        return (O.NoIntra(), {}, 1.0)
    return (O.InterMolecular(), {}, 1.0)


def run_dk_invalid(ctx, case):
    rng = np.random.default_rng(case['seed'])
    sigma = float(rng.uniform(0.5, 2.0))
    for name, kw in (('l<=sigma/2', dict(sigma=sigma, l=sigma * float(rng.uniform(0.05, 0.5)), length=10, lp=5.0)),
                     ('l==sigma/2', dict(sigma=sigma, l=sigma / 2.0, length=10, lp=5.0)),
                     ('lp<lp_min', None)):
        if kw is None:
            l = sigma * float(rng.uniform(0.6, 2.0))
            lp_min = 4.0 * l ** 3 / (4.0 * l ** 2 - sigma ** 2)
            kw = dict(sigma=sigma, l=l, length=10, lp=lp_min * float(rng.uniform(0.1, 0.999)))
        ctx.hook('dk_invalid_params')
        try:
            with np.errstate(all='ignore'):
                pyPRISM.omega.DiscreteKoyama(**kw)
            ctx.violation('omega:DK-accepts-overlapping-parameters', 'DiscreteKoyama(%s) [%s] did not raise ValueError' % (kw, name))
        except ValueError:
            pass
    ctx.nontrivial(case)


def run_case(ctx, case):
    if case.get('kind') == 'repo_suite':
        return SUITE.run(ctx, pattern='[!C]*_test.py')       # everything but the CalcPRISM tests (17 s of solving that adds no events here)
    if case['kind'] == 'dk_invalid':
        return run_dk_invalid(ctx, case)
    rng = np.random.default_rng(case['seed'])
    model, N = case['model'], int(case['N'])
    k, gname = k_grid(ctx, rng, case['grid'])
    if model in ('DK',) and len(k) > 300:
        k = k[:: max(1, len(k) // 300)]
    if model == 'NFJC' and len(k) > 60:
        k = k[:: max(1, len(k) // 60)]
    if model in ('RING', 'G', 'FJC') and N >= 1000 and len(k) > 2048:
        k = np.concatenate([k[:1024], k[1024:: max(1, len(k) // 1024)]])
    try:
        with np.errstate(all='ignore'):
            obj, params, scale = build(model, N, rng)
    except TypeError as e:
        if model == 'DK':
            ctx.violation('omega:DK-constructor-raises-TypeError', 'DiscreteKoyama(%s) raises %s: %s' % ('valid documented parameters', type(e).__name__, str(e)[:120]))
            return
        raise
    desc = {'model': type(obj).__name__, 'N': N, 'params': params, 'k': gname, 'nk': len(k)}
    try:
        with np.errstate(all='ignore'):
            out = np.array(obj.calculate(np.array(k)), dtype=float)          # contract evaluated inside
    except AttributeError as e:
        if model == 'NFJC' and ('trapz' in str(e) or 'simps' in str(e)):
            ctx.violation('omega:NFJC-unusable', 'NonOverlappingFreelyJointedChain.calculate raises AttributeError (%s)' % str(e)[:80])
            ctx.count('model', model)
            return
        raise
    kind = kind_of(obj)
    # ---- an array returned earlier survives later evaluations (of this and of a second live object); k may be read-only
    with np.errstate(all='ignore'):
        raw = obj.calculate(np.array(k))
        keep = np.array(raw, copy=True)
        kro = np.array(k)
        kro.flags.writeable = False
        try:
            o_ro = np.array(obj.calculate(kro), dtype=float)
            if not np.array_equal(o_ro, out, equal_nan=True):
                ctx.violation('omega:%s-readonly-k-differs' % kind, '%s: result changes when k is read-only' % desc)
        except ValueError as e:
            if 'read-only' in str(e):
                ctx.violation('omega:%s-writes-into-k' % kind, '%s: calculate writes into its k argument' % desc)
            else:
                raise
        try:
            obj2, _, _ = build(model, max(2, N // 2 + 1), rng)
            obj2.calculate(np.array(k[: max(1, len(k) // 2)]))
        except Exception:
            pass
        obj.calculate(np.array(k[::-1]))
        if not np.array_equal(np.asarray(raw), keep, equal_nan=True):
            ctx.violation('omega:%s-earlier-result-overwritten' % kind, '%s: an array returned by calculate changed after later evaluations' % desc)
    # ---- a copy of the object (table assignment and PRISM.__init__ deep-copy every omega; a job may be pickled) evaluates like the original
    ctx.hook('copy_probe')
    for how in ('deepcopy', 'pickle', 'table'):
        try:
            if how == 'deepcopy':
                cp = copy.deepcopy(obj)
            elif how == 'pickle':
                cp = pickle.loads(pickle.dumps(obj))
            else:
                tb = pyPRISM.PairTable(['A'], 'omega')
                tb['A', 'A'] = obj
                cp = tb['A', 'A']
            with np.errstate(all='ignore'):
                oc = np.array(cp.calculate(np.array(k)), dtype=float)
        except Exception as e:   # noqa
            ctx.violation('omega:%s-copy-unusable' % kind, '%s: a %s copy cannot be evaluated: %s: %s' % (desc, how, type(e).__name__, str(e)[:100]))
            continue
        if oc.shape != out.shape or not np.allclose(oc, out, rtol=0, atol=1e-9 * max(N, 1), equal_nan=True):
            ctx.violation('omega:%s-copy-differs' % kind, '%s: a %s copy evaluates differently from the object it was copied from (max diff %.3g)' % (desc, how, float(np.nanmax(np.abs(oc - out))) if oc.shape == out.shape else np.inf))
    # ---- k-independence: subsets, reversed order, single wavenumbers
    ctx.hook('k_independence_probe')
    tol = 5e-8 * max(N, 1)          # two evaluations of the same closed form differ by rounding amplified by 1/(1-E)^2 (up to ~1e-8 at the small-k switch)
    with np.errstate(all='ignore'):
        sub = np.sort(rng.choice(len(k), size=max(1, len(k) // 4), replace=False))
        o = np.array(type(obj).calculate(obj, np.array(k[sub])), dtype=float)
        if o.shape != sub.shape or not np.allclose(o, out[sub], rtol=0, atol=tol, equal_nan=True):
            ctx.violation('omega:%s-depends-on-other-k:subset' % kind, '%s: value at a wavenumber changes when other wavenumbers are removed' % desc)
        o = np.array(obj.calculate(np.array(k[::-1])), dtype=float)
        if o.shape != k.shape or not np.allclose(o[::-1], out, rtol=0, atol=tol, equal_nan=True):
            ctx.violation('omega:%s-depends-on-other-k:reversed' % kind, '%s: values change when k is reversed' % desc)
        for i in [int(x) for x in rng.choice(len(k), size=min(3, len(k)), replace=False)]:
            o = np.array(obj.calculate(np.array(k[i:i + 1])), dtype=float)
            if o.shape != (1,) or not np.allclose(o, out[i:i + 1], rtol=0, atol=tol, equal_nan=True):
                ctx.violation('omega:%s-depends-on-other-k:single' % kind, '%s: single-k evaluation at k=%r gives %r, array evaluation %r' % (desc, float(k[i]), o.tolist(), float(out[i])))
        o = np.array(obj.calculate(np.array(k)), dtype=float)
        if not np.array_equal(o, out, equal_nan=True):
            ctx.violation('omega:%s-not-repeatable' % kind, '%s: second identical call differs' % desc)
        # a single wavenumber given as a plain number / 0-d array (the chain models have a branch for it): judged only when a value comes back
        i = int(rng.integers(0, len(k)))
        for form, arg in (('float', float(k[i])), ('0-d array', np.array(float(k[i])))):
            try:
                o = np.asarray(obj.calculate(arg), dtype=float)
            except Exception:   # noqa - scalar wavenumbers are not documented input
                ctx.count('scalar_k', '%s: %s refused' % (kind, form))
                continue
            ctx.hook('scalar_k_probe')
            if o.size != 1 or not np.allclose(o.ravel()[0], out[i], rtol=0, atol=tol, equal_nan=True):
                ctx.violation('omega:%s-depends-on-other-k:scalar' % kind, '%s: evaluation at the plain number k=%r (%s) gives %r, array evaluation %r' % (desc, float(k[i]), form, o.tolist(), float(out[i])))
    # ---- FP-trap replica: finite everywhere means no invalid / divide / overflow on the way
    if kind in ('G', 'FJC', 'RING', 'DK'):
        ctx.hook('fp_trap_replica')
        try:
            with np.errstate(invalid='raise', divide='raise', over='raise', under='ignore'):
                obj.calculate(np.array(k))
        except FloatingPointError as e:
            import traceback
            fs = traceback.extract_tb(e.__traceback__)[-1]
            ctx.violation('omega:%s-fp-exception' % kind, '%s: %s at %s:%d (%s)' % (desc, e, fs.filename.split('/')[-1], fs.lineno, fs.line))
    # ---- limits
    if kind in ('G', 'FJC', 'RING', 'DK', 'NFJC'):
        ctx.hook('limit_probe')
        with np.errstate(all='ignore'):
            ks = np.array([1e-4, 3e-4, 1e-3]) / max(scale, 1.0)
            o = np.array(obj.calculate(ks), dtype=float)
            bound = 1e-5 * N + (N * ks * scale) ** 2 / 18.0 * 4
            if kind == 'DK':
                bound = 1e-5 * N + N * (N * ks * scale) ** 2 / 36.0 * 1.5        # rod limit: R_g^2 = (N l)^2/12
            if not np.all(np.abs(o - N) <= bound):
                ctx.violation('omega:%s-small-k-limit' % kind, '%s: omega(k->0) = %r, expected N=%d within %r' % (desc, o.tolist(), N, bound.tolist()))
            kl = np.array([1e3, 2.5e3]) / scale
            o = np.array(obj.calculate(kl), dtype=float)
            lim = 5e-3 if kind in ('FJC', 'NFJC') else (2.5e-3 * (1 + math.log(N)) if kind == 'DK' else 1e-9)
            if not np.all(np.abs(o - 1) <= lim):
                ctx.violation('omega:%s-large-k-limit' % kind, '%s: omega(k=%r) = %r, expected 1 within %g' % (desc, kl.tolist(), o.tolist(), lim))
    # ---- DiscreteKoyama: second moment of the own kernel vs the freely rotating chain (from constructor arguments only)
    if kind == 'DK':
        ctx.hook('dk_second_moment_probe')
        l, lp = params['l'], params['lp']
        q = 1.0 - l / lp
        S2 = sum((N - n) * R.frc_r2(n, l, -q) for n in range(1, N))
        Rmax2 = R.frc_r2(N - 1, l, -q)
        kk = math.sqrt(1e-5 / Rmax2)
        with np.errstate(all='ignore'):
            o = float(np.asarray(obj.calculate(np.array([kk])))[0])
        curv = (N - o) * 3 * N / kk ** 2
        if not abs(curv - S2) <= 2e-3 * S2:
            ctx.violation('omega:DK-second-moment', '%s: small-k curvature gives sum_{i<j}<r_ij^2> = %.8g, freely rotating chain (l=%r, lp=%r) gives %.8g' % (desc, curv, l, lp, S2))
    if kind in ('G', 'FJC', 'RING', 'DK') and len(k) >= 8 and (case['grid'].startswith('domain') or case['grid'] == 'tiny_dk' or (k.min() * scale < 0.1 and k.max() * scale > 10)):
        ctx.nontrivial(case)
    ctx.count('model', model)
    ctx.count('N_decade', 10 ** int(math.log10(N)))
    ctx.count('k_grid', case['grid'])
    ctx.sample(dict(desc, omega_head=out[:3], k_head=k[:3]), limit=5)
