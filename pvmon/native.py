"""Build the repository's Cython extension (pyPRISM/trajectory/Debyer.pyx) from the tree under test.

The .pyx as shipped does not cythonize against the pinned numpy (np.int / np.int_t were removed); a two-token
compatibility shim is applied to a SCRATCH COPY at build time (np.int -> np.int64, np.int_t -> np.int64_t;
a no-op once upstream is fixed).  Nothing in the repository is touched.  Two builds:
  plain : -O2 -fopenmp
  asan  : -O1 -g -fopenmp -fsanitize=address,undefined -fno-sanitize-recover=all
Products live under <out>/native-build/<sha256 of the .pyx>/ and are rebuilt when the source changes.
"""
import hashlib
import os
import re
import shutil
import subprocess
import sys
import sysconfig

from . import core


class BuildError(Exception):
    pass


def shim(src):
    src = re.sub(r'\bnp\.int_t\b', 'np.int64_t', src)
    src = re.sub(r'\bnp\.int\b(?!\d|_)', 'np.int64', src)
    return src


def build(kind='plain'):
    pyx = os.path.join(core.REPO, 'pyPRISM', 'trajectory', 'Debyer.pyx')
    if not os.path.exists(pyx):
        raise BuildError('no Debyer.pyx in %s' % core.REPO)
    src = open(pyx).read()
    sha = hashlib.sha256(src.encode()).hexdigest()[:16]
    root = os.path.join(core.OUT, 'native-build', sha, kind)
    ext = sysconfig.get_config_var('EXT_SUFFIX')
    so = os.path.join(root, 'Debyer' + ext)
    if os.path.exists(so):
        return root
    tmp = root + '.tmp%d' % os.getpid()
    shutil.rmtree(tmp, ignore_errors=True)
    os.makedirs(tmp)
    with open(os.path.join(tmp, 'Debyer.pyx'), 'w') as f:
        f.write(shim(src))
    env = dict(os.environ)
    r = subprocess.run([sys.executable, '-m', 'cython', '-3', 'Debyer.pyx'], cwd=tmp, stdout=subprocess.PIPE, stderr=subprocess.STDOUT, universal_newlines=True, env=env)
    if r.returncode != 0:
        raise BuildError('cython failed:\n' + r.stdout[-3000:])
    import numpy as np
    flags = ['-O2'] if kind == 'plain' else ['-O1', '-g', '-fno-omit-frame-pointer', '-fsanitize=address,undefined', '-fno-sanitize-recover=all']
    cmd = ['gcc', '-shared', '-fPIC', '-fopenmp', '-w'] + flags + ['-I' + sysconfig.get_paths()['include'], '-I' + np.get_include(),
                                                                    '-DNPY_NO_DEPRECATED_API=NPY_1_7_API_VERSION', 'Debyer.c', '-o', 'Debyer' + ext]
    r = subprocess.run(cmd, cwd=tmp, stdout=subprocess.PIPE, stderr=subprocess.STDOUT, universal_newlines=True)
    if r.returncode != 0:
        raise BuildError('gcc failed:\n' + r.stdout[-3000:])
    os.makedirs(os.path.dirname(root), exist_ok=True)
    try:
        os.rename(tmp, root)
    except OSError:
        shutil.rmtree(tmp, ignore_errors=True)      # another worker won the race
    return root


def sanitizer_env():
    asan = subprocess.run(['gcc', '-print-file-name=libasan.so'], stdout=subprocess.PIPE, universal_newlines=True).stdout.strip()
    ubsan = subprocess.run(['gcc', '-print-file-name=libubsan.so'], stdout=subprocess.PIPE, universal_newlines=True).stdout.strip()
    env = dict(os.environ)
    env['LD_PRELOAD'] = '%s %s' % (os.path.realpath(asan), os.path.realpath(ubsan))
    env['ASAN_OPTIONS'] = 'detect_leaks=0:halt_on_error=1:abort_on_error=0:exitcode=97'
    env['UBSAN_OPTIONS'] = 'halt_on_error=1:print_stacktrace=1:exitcode=98'
    return env
