"""Runtime contracts on the real MatrixArray class (C13; also active under other workloads).

Every arithmetic method is wrapped on the class.  Before the call the operands are
snapshotted; after it the result is compared with the same operation applied matrix by
matrix to the snapshots, aliasing between result and operands is probed with
np.shares_memory, and the frame condition (who may change) is checked.  The space rule
is checked on every call: Real with Fourier must be refused, NonSpatial goes with anything.
"""
import numpy as np

from pyPRISM.core.MatrixArray import MatrixArray
from pyPRISM.core.Space import Space

EPS = np.finfo(float).eps
_S = {'ctx': None, 'on': True}

BIN = {'__add__': np.add, '__sub__': np.subtract, '__mul__': np.multiply, '__truediv__': np.true_divide}
IBIN = {'__iadd__': np.add, '__isub__': np.subtract, '__imul__': np.multiply, '__itruediv__': np.true_divide}


def per_matrix(op, A, B):
    """the same operation applied matrix by matrix (explicit loop; B may be a length-1 stack, scalar or array)"""
    L = A.shape[0]
    out = np.empty(np.broadcast_shapes(A.shape, np.shape(B)), dtype=float)
    Bs = np.asarray(B)
    for l in range(out.shape[0]):
        a = A[l] if A.shape[0] > 1 else A[0]
        if Bs.ndim == 3:
            b = Bs[l] if Bs.shape[0] > 1 else Bs[0]
        elif Bs.ndim == 0:
            b = Bs
        else:
            b = np.broadcast_to(Bs, out.shape)[l]
        out[l] = op(a, b)
    return out


def spaces_ok(a, b):
    return a == b or Space.NonSpatial in (a, b)


def close(got, ref, scale=None, k=64):
    got = np.asarray(got)
    if got.shape != ref.shape:
        return False, float('inf')
    with np.errstate(all='ignore'):
        mag = np.maximum(np.abs(ref), 0 if scale is None else scale)
        err = np.abs(got - ref)
        bad = ~((err <= k * EPS * mag) | (got == ref) | (np.isnan(got) & np.isnan(ref)))
    if bad.any():
        with np.errstate(all='ignore'):
            return False, float(np.nanmax(err / np.maximum(mag, 1e-300)))
    return True, 0.0


def V(mech, msg):
    _S['ctx'].violation('ma:' + mech, msg)


def _binary(name, op, inplace):
    orig = MatrixArray.__dict__[name]

    def wrapper(self, other):
        ctx = _S['ctx']
        if ctx is None or not _S['on']:
            return orig(self, other)
        ctx.hook('ma.' + name)
        is_ma = isinstance(other, MatrixArray)
        A0 = np.array(self.data, copy=True)
        B0 = np.array(other.data, copy=True) if is_ma else (np.array(other, copy=True) if isinstance(other, np.ndarray) else other)
        sp_self, sp_other = self.space, (other.space if is_ma else None)
        same_obj = other is self
        try:
            res = orig(self, other)
        except Exception:
            # whatever the reason for refusing, a refused operation must not have modified its operands
            if not np.array_equal(self.data, A0, equal_nan=True):
                V('refused-op-modified-left', '%s raised but the left operand changed' % name)
            raise
        if is_ma and not spaces_ok(sp_self, sp_other):
            V('space-mix-accepted', '%s between %s and %s MatrixArrays was not refused' % (name, sp_self, sp_other))
            return res
        ctx.count('ma_op', '%s/%s/%s' % (name, 'self' if same_obj else ('MA%s' % ('1' if is_ma and B0.shape[0] == 1 and A0.shape[0] > 1 else '') if is_ma else type(other).__name__), sp_self.name + ('-' + sp_other.name if sp_other else '')))
        with np.errstate(all='ignore'):
            ref = per_matrix(op, A0, B0)
        if not isinstance(res, MatrixArray):
            V('result-type', '%s returned %s' % (name, type(res).__name__))
            return res
        ok, e = close(res.data, ref)
        if not ok:
            V('value:' + name, '%s differs from the per-matrix operation (rel err %.3g, rank %d, length %d, other=%s)' % (
                name, e, A0.shape[1], A0.shape[0], 'MatrixArray' if is_ma else type(other).__name__))
        if inplace:
            if res is not self:
                V('inplace-returns-new-object', '%s did not return the left operand' % name)
            if is_ma and not same_obj and not np.array_equal(other.data, B0, equal_nan=True):
                V('inplace-modified-right', '%s changed its right operand' % name)
            if isinstance(other, np.ndarray) and not np.array_equal(other, B0, equal_nan=True):
                V('inplace-modified-right', '%s changed its right (ndarray) operand' % name)
            ok, e = close(self.data, ref)
            if not ok:
                V('inplace-left-not-updated', '%s: left operand does not hold the result (rel err %.3g)' % (name, e))
        else:
            if not np.array_equal(self.data, A0, equal_nan=True):
                V('outofplace-modified-left', '%s changed its left operand' % name)
            if is_ma and not np.array_equal(other.data, B0, equal_nan=True):
                V('outofplace-modified-right', '%s changed its right operand' % name)
            if isinstance(other, np.ndarray) and not np.array_equal(other, B0, equal_nan=True):
                V('outofplace-modified-right', '%s changed its right (ndarray) operand' % name)
            if res is self or np.shares_memory(res.data, self.data):
                V('result-aliases-left', '%s result shares memory with its left operand' % name)
            if is_ma and np.shares_memory(res.data, other.data):
                V('result-aliases-right', '%s result shares memory with its right operand' % name)
            if isinstance(other, np.ndarray) and np.shares_memory(res.data, other):
                V('result-aliases-right', '%s result shares memory with its right (ndarray) operand' % name)
        return res
    wrapper.__name__ = name
    wrapper._pvmon_orig = orig
    return wrapper


def _dot(name):
    orig = MatrixArray.__dict__[name]

    def wrapper(self, other, *a, **kw):
        ctx = _S['ctx']
        if ctx is None or not _S['on']:
            return orig(self, other, *a, **kw)
        ctx.hook('ma.' + name)
        inplace = name == '__imatmul__' or (name == 'dot' and (kw.get('inplace', a[0] if a else False)))
        is_ma = isinstance(other, MatrixArray)
        A0 = np.array(self.data, copy=True)
        B0 = np.array(other.data, copy=True) if is_ma else None
        sp_self, sp_other = self.space, (other.space if is_ma else None)
        same_obj = other is self
        try:
            res = orig(self, other, *a, **kw)
        except Exception:
            if not np.array_equal(self.data, A0, equal_nan=True):
                V('refused-op-modified-left', '%s raised but the left operand changed' % name)
            raise
        if is_ma and not spaces_ok(sp_self, sp_other):
            V('space-mix-accepted', '%s between %s and %s MatrixArrays was not refused' % (name, sp_self, sp_other))
            return res
        if not is_ma:
            return res
        ctx.count('ma_op', '%s%s/%s/%s' % (name, '(inplace)' if inplace else '', 'self' if same_obj else 'MA', sp_self.name + '-' + sp_other.name))
        L = max(A0.shape[0], B0.shape[0])
        ref = np.empty((L, A0.shape[1], B0.shape[2]))
        mag = np.empty_like(ref)
        for l in range(L):
            a_ = A0[l if A0.shape[0] > 1 else 0]
            b_ = B0[l if B0.shape[0] > 1 else 0]
            ref[l] = a_ @ b_
            mag[l] = np.abs(a_) @ np.abs(b_)
        ok, e = close(res.data, ref, scale=mag, k=64 * A0.shape[1])
        if not ok:
            V('value:' + name, '%s differs from per-matrix A[l]@B[l] (rel err %.3g, rank %d, length %d)' % (name, e, A0.shape[1], L))
        if inplace:
            if res is not self:
                V('inplace-returns-new-object', '%s(inplace) did not return the left operand' % name)
            if not same_obj and not np.array_equal(other.data, B0, equal_nan=True):
                V('inplace-modified-right', '%s(inplace) changed its right operand' % name)
        else:
            if not np.array_equal(self.data, A0, equal_nan=True):
                V('outofplace-modified-left', '%s changed its left operand' % name)
            if not np.array_equal(other.data, B0, equal_nan=True):
                V('outofplace-modified-right', '%s changed its right operand' % name)
            if np.shares_memory(res.data, self.data) or np.shares_memory(res.data, other.data):
                V('result-aliases-operand', '%s result shares memory with an operand' % name)
        return res
    wrapper.__name__ = name
    wrapper._pvmon_orig = orig
    return wrapper


def _invert():
    orig = MatrixArray.__dict__['invert']

    def wrapper(self, inplace=False):
        ctx = _S['ctx']
        if ctx is None or not _S['on']:
            return orig(self, inplace=inplace)
        ctx.hook('ma.invert')
        A0 = np.array(self.data, copy=True)
        res = orig(self, inplace=inplace)
        ctx.count('ma_op', 'invert%s/%s' % ('(inplace)' if inplace else '', self.space.name))
        ref = np.empty(A0.shape, dtype=float)
        cond = np.empty(A0.shape[0])
        for l in range(A0.shape[0]):
            ref[l] = np.linalg.inv(A0[l])
            cond[l] = np.linalg.cond(A0[l])
        scale = np.abs(ref).max(axis=(1, 2), keepdims=True) * cond.reshape(-1, 1, 1)
        ok, e = close(res.data, ref, scale=scale, k=64 * A0.shape[1])
        if not ok:
            V('value:invert', 'invert differs from per-matrix np.linalg.inv (rel err %.3g, rank %d)' % (e, A0.shape[1]))
        # A . A^-1 = I for well-conditioned data
        n = A0.shape[1]
        resid = np.abs(np.einsum('lij,ljk->lik', A0, np.asarray(res.data)) - np.eye(n)).max(axis=(1, 2))
        bad = resid > 1e-9 * np.maximum(cond, 1)
        if bad.any():
            V('value:invert-identity', 'A.dot(A.invert()) != I: residual %.3g at cond %.3g' % (resid[bad].max(), cond[bad].max()))
        if inplace:
            if res is not self:
                V('inplace-returns-new-object', 'invert(inplace=True) did not return self')
        else:
            if not np.array_equal(self.data, A0, equal_nan=True):
                V('outofplace-modified-left', 'invert() changed its operand')
            if np.shares_memory(res.data, self.data):
                V('result-aliases-left', 'invert() result shares memory with its operand')
        return res
    wrapper._pvmon_orig = orig
    return wrapper


def _get_copy():
    orig = MatrixArray.__dict__['get_copy']

    def wrapper(self):
        ctx = _S['ctx']
        if ctx is None or not _S['on']:
            return orig(self)
        ctx.hook('ma.get_copy')
        A0 = np.array(self.data, copy=True)
        res = orig(self)
        if res is self or np.shares_memory(res.data, self.data):
            V('copy-aliases', 'get_copy shares memory with the original')
        if not np.array_equal(res.data, A0, equal_nan=True) or not np.array_equal(self.data, A0, equal_nan=True):
            V('copy-differs', 'get_copy returned different data or changed the original')
        if res.space != self.space or list(res.types) != list(self.types):
            V('copy-meta', 'get_copy changed space/types')
        return res
    wrapper._pvmon_orig = orig
    return wrapper


def _setitem():
    orig = MatrixArray.__dict__['__setitem__']

    def wrapper(self, key, val):
        ctx = _S['ctx']
        if ctx is None or not _S['on']:
            return orig(self, key, val)
        ctx.hook('ma.__setitem__')
        A0 = np.array(self.data, copy=True)
        try:
            t1, t2 = key
            known = t1 in self.types and t2 in self.types
        except Exception:
            known = False
        try:
            orig(self, key, val)
        except ValueError:
            if known:
                raise
            if not np.array_equal(self.data, A0, equal_nan=True):
                V('setitem-unknown-type-modified', 'assignment with unknown type changed the data')
            raise
        if not known:
            V('setitem-unknown-type-accepted', 'assignment to unknown type pair %r did not raise ValueError' % (key,))
            return
        i, j = list(self.types).index(t1), list(self.types).index(t2)
        exp = np.array(A0)
        exp[:, i, j] = val
        exp[:, j, i] = val
        if not np.array_equal(self.data, exp, equal_nan=True):
            d = np.argwhere(~((self.data == exp) | (np.isnan(self.data) & np.isnan(exp))))
            which = sorted(set((int(a), int(b)) for _, a, b in d))
            V('setitem-not-symmetric-write', 'MA[%s,%s]=v must write exactly (a,b) and (b,a); differing entries %s' % (t1, t2, which[:4]))
    wrapper._pvmon_orig = orig
    return wrapper


def _getitem():
    orig = MatrixArray.__dict__['__getitem__']

    def wrapper(self, key):
        ctx = _S['ctx']
        if ctx is None or not _S['on']:
            return orig(self, key)
        ctx.hook('ma.__getitem__')
        try:
            t1, t2 = key
            known = t1 in self.types and t2 in self.types
        except Exception:
            known = False
        try:
            res = orig(self, key)
        except ValueError:
            if known:
                raise
            raise
        if not known:
            V('getitem-unknown-type-accepted', 'reading unknown type pair %r did not raise ValueError' % (key,))
            return res
        i, j = list(self.types).index(t1), list(self.types).index(t2)
        if not np.array_equal(np.asarray(res), self.data[:, i, j], equal_nan=True):
            V('getitem-wrong-pair', 'MA[%s,%s] did not return the (%d,%d) pair function' % (t1, t2, i, j))
        return res
    wrapper._pvmon_orig = orig
    return wrapper


def attach(ctx):
    _S['ctx'] = ctx
    if getattr(MatrixArray, '_pvmon_contracts', False):
        return
    for name, op in BIN.items():
        setattr(MatrixArray, name, _binary(name, op, False))
    for name, op in IBIN.items():
        setattr(MatrixArray, name, _binary(name, op, True))
    for name in ('dot', '__matmul__', '__imatmul__'):
        setattr(MatrixArray, name, _dot(name))
    MatrixArray.invert = _invert()
    MatrixArray.get_copy = _get_copy()
    MatrixArray.__setitem__ = _setitem()
    MatrixArray.__getitem__ = _getitem()
    MatrixArray._pvmon_contracts = True


class paused(object):
    def __enter__(self):
        self.prev = _S['on']
        _S['on'] = False

    def __exit__(self, *a):
        _S['on'] = self.prev
