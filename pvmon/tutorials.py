"""The maintainers' own workloads as monitored executions.

The case studies of the pyPRISM tutorial (NB6 nanocomposites, NB7 copolymers, NB9 user-defined potential) and the quick-start
of the documentation are re-enacted through the public API exactly as written there - one System object that is re-specified
step by step, PRISM objects created from it, each solve continued from the previous root - and every solved object is handed
to the calling check's monitor together with the USER-LEVEL specification of that step (a gen.py spec that uses only what
the user typed: diameters, densities, file names, the square-well class of NB9).

These are realistic rather than hostile inputs: size ratios up to 16, number densities down to 1e-7, contact distances
that are not grid multiples, tabulated form factors read from repo/data, three-component systems, 16384-point grids.
"""
import math

import numpy as np

import pyPRISM

from . import gen as G


def vol(d):
    return math.pi * d ** 3 / 6.0


def bare_composite_spec(D, alpha=0.5, dr=0.1, L=1024, cross='IM', eta=0.4, phi=0.001, d=1.0):
    return {'types': ['particle', 'polymer'], 'kT': 1.0, 'dr': dr, 'L': L,
            'd': {'particle': float(D), 'polymer': d},
            'rho': {'polymer': (1 - phi) * eta / vol(d), 'particle': phi * eta / vol(float(D))},
            'pot': {'polymer|polymer': {'t': 'HS'}, 'particle|polymer': {'t': 'EXP', 'alpha': alpha, 'eps': 1.0}, 'particle|particle': {'t': 'HS'}},
            'clo': {'polymer|polymer': {'t': 'PY'}, 'particle|polymer': {'t': 'PY'}, 'particle|particle': {'t': 'HNC'}},
            'om': {'polymer|polymer': {'t': 'FJC', 'N': 100, 's': 4.0 * d / 3.0}, 'particle|polymer': {'t': cross}, 'particle|particle': {'t': 'SS'}}}


def grafted_spec(arch, Nmatrix, D=5.0, d=1.0, phi=0.001, eta=0.35):
    vd, vD = 4.0 / 3.0 * math.pi * (d / 2.0) ** 3, 4.0 / 3.0 * math.pi * (D / 2.0) ** 3
    nb = 500 if arch == 'linear' else 1250
    vPGP = vD + nb * vd
    types = ['particle', 'graft', 'matrix']
    sp = {'types': types, 'kT': 1.0, 'dr': 0.1, 'L': 1024, 'd': {'particle': D, 'graft': d, 'matrix': d},
          'rho': {'matrix': (1 - phi) * eta / vd, 'particle': phi * eta / vPGP, 'graft': nb * phi * eta / vPGP},
          'pot': {}, 'clo': {}, 'om': {}}
    for (i, j), (a, b) in G.pairs(types):
        sp['pot'][G.pk(a, b)] = {'t': 'HS'}
        sp['clo'][G.pk(a, b)] = {'t': 'HNC' if (a, b) == ('particle', 'particle') else 'PY'}
    sp['om'] = {'particle|particle': {'t': 'SS'}, 'particle|matrix': {'t': 'IM'}, 'graft|matrix': {'t': 'IM'},
                'matrix|matrix': {'t': 'FILE', 'file': 'GraftedComposite-Omega-matrix-N%d.dat' % Nmatrix},
                'graft|graft': {'t': 'FILE', 'file': 'GraftedComposite-Omega-%s-GG.dat' % arch},
                'particle|graft': {'t': 'FILE', 'file': 'GraftedComposite-Omega-%s-GP.dat' % arch}}
    return sp


def copolymer_spec(case, d=1.0, f_A=0.5, eta=0.1):
    vd = 4.0 / 3.0 * math.pi * (d / 2.0) ** 3
    rho = eta / vd
    return {'types': ['A', 'B'], 'kT': 1.0, 'dr': 0.1, 'L': 1024, 'd': {'A': d, 'B': d}, 'rho': {'A': f_A * rho, 'B': (1.0 - f_A) * rho},
            'pot': {'A|A': {'t': 'WCA', 'eps': 1.0}, 'A|B': {'t': 'WCA', 'eps': 1.0}, 'B|B': {'t': 'LJ', 'eps': 0.25}},
            'clo': {'A|A': {'t': 'PY'}, 'A|B': {'t': 'PY'}, 'B|B': {'t': 'PY'}},
            'om': {'A|A': {'t': 'FILE', 'file': 'BCPSolution-Omega-AA-Case%s.dat' % case}, 'A|B': {'t': 'FILE', 'file': 'BCPSolution-Omega-AB-Case%s.dat' % case},
                   'B|B': {'t': 'FILE', 'file': 'BCPSolution-Omega-BB-Case%s.dat' % case}}}


def squarewell_spec(which, dr=0.01, L=16384, rho=0.9, diameter=1.0):
    pot = {'t': 'HS', 'sigma': diameter} if which == 'HS' else {'t': 'SW', 'sigma': diameter, 'width': 1.0, 'depth': 0.3}
    return {'types': ['monomer'], 'kT': 1.0, 'dr': dr, 'L': L, 'd': {'monomer': diameter}, 'rho': {'monomer': rho},
            'pot': {'monomer|monomer': pot}, 'clo': {'monomer|monomer': {'t': 'HNC', 'hc': True}}, 'om': {'monomer|monomer': {'t': 'SS'}}}


def quickstart_spec():
    return {'types': ['particle', 'polymer'], 'kT': 1.0, 'dr': 0.01, 'L': 4096, 'd': {'polymer': 1.0, 'particle': 5.0}, 'rho': {'polymer': 0.75, 'particle': 6e-6},
            'pot': {'polymer|polymer': {'t': 'HS', 'sigma': 1.0}, 'particle|polymer': {'t': 'EXP', 'sigma': 3.0, 'alpha': 0.5, 'eps': 1.0}, 'particle|particle': {'t': 'HS', 'sigma': 5.0}},
            'clo': {'polymer|polymer': {'t': 'PY'}, 'particle|polymer': {'t': 'PY'}, 'particle|particle': {'t': 'HNC'}},
            'om': {'polymer|polymer': {'t': 'FJC', 'N': 100, 's': 4.0 / 3.0}, 'particle|polymer': {'t': 'NI'}, 'particle|particle': {'t': 'SS'}}}


def interpolate_guess(r_from, r_to, rank, guess):
    '''the helper of NB6, verbatim in behaviour: upscale a solution to another grid'''
    guess = guess.reshape((len(r_from), rank, rank))
    new = np.zeros((len(r_to), rank, rank))
    for i in range(rank):
        for j in range(rank):
            new[:, i, j] = np.interp(r_to, r_from, guess[:, i, j])
    return new.reshape((-1,))


# name -> list of (spec, how the guess is obtained).  'prev' = np.copy(PRISM.x) of the previous step (or zeros), 'interp' = NB6 helper
def plan(name, quick=False):
    if name == 'NB6.bare':
        Ds = np.arange(1.0, 16.5, 0.5)
        steps = [(bare_composite_spec(D), 'prev') for D in Ds]
        steps += [(bare_composite_spec(16.0, alpha=a, dr=0.075, L=2048, cross='NI'), 'interp' if n == 0 else 'same') for n, a in enumerate([0.25, 0.5, 1.0])]
        return steps
    if name == 'NB6.grafted':
        out = []
        for Nm in (60, 10):
            out.append((grafted_spec('linear', Nm), 'prev'))
            out.append((grafted_spec('comb', Nm), 'same'))
        return out
    if name == 'NB7.copolymer':
        return [(copolymer_spec(c), 'prev') for c in ('2', '2i', '1')]
    if name == 'NB9.squarewell':
        kw = {}          # the tutorial's own grid: coarser ones do not converge at this density
        return [(squarewell_spec('HS', **kw), 'prev'), (squarewell_spec('SW', **kw), 'prev')]
    if name == 'quickstart':
        return [(quickstart_spec(), 'sys.solve')]
    raise KeyError(name)


NAMES = ['NB6.bare', 'NB6.grafted', 'NB7.copolymer', 'NB9.squarewell', 'quickstart']


def run(name, on_step, quick=False, before_solve=None, max_steps=None, before_create=None):
    """re-enact tutorial `name`; after every successful solve call on_step(sp, s, p, res, label).  Returns (#steps solved, #steps)."""
    steps = plan(name, quick)
    if max_steps:
        steps = steps[:max_steps]
    s = None
    guess = None
    prev_r = None
    nok = 0
    for n, (sp, how) in enumerate(steps):
        with np.errstate(all='ignore'):
            if s is None or list(s.types) != list(sp['types']) or s.domain.length != sp['L'] or abs(s.domain.dr - sp['dr']) > 1e-12:
                # a new System (the tutorials create a fresh one when the grid changes); otherwise the same object is re-specified
                s_new = G.build(sp)
                if how == 'interp' and guess is not None:
                    guess = interpolate_guess(prev_r, np.array(s_new.domain.r), len(sp['types']), guess)
                elif s is not None:
                    guess = None
                s = s_new
            else:
                G.build(sp, into=s, omit=('domain',))
            if before_create is not None:
                before_create(sp, s)
            if how == 'sys.solve':
                p = None
                try:
                    p = s.solve()
                    res = p.minimize_result
                except G.SOLVE_ERRORS:
                    res = None
            else:
                p = s.createPRISM()
                if before_solve is not None:
                    before_solve(sp, s, p)
                if guess is None:
                    # NB6 (grafted) writes the first guess as a 3-D array (length, rank, rank), the other notebooks as a flat vector
                    g = np.zeros((sp['L'], len(sp['types']), len(sp['types']))) if name == 'NB6.grafted' else np.zeros(len(sp['types']) ** 2 * sp['L'])
                else:
                    g = np.array(guess)
                res = G.solve(p, 'krylov', {'maxiter': 200}, guess=g, max_evals=3000)
        if res is None or not res.success:
            continue
        nok += 1
        if how == 'prev':
            guess = np.copy(p.x)
        prev_r = np.array(s.domain.r)
        on_step(sp, s, p, res, '%s step %d' % (name, n))
    return nok, len(steps)
