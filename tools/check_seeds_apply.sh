#!/bin/bash
# every seeded patch must apply to /repo's current working tree (dry run on a scratch copy)
cd "$(dirname "$0")/.."
d=$(mktemp -d /dev/shm/seedapply-XXXX); rc=0
for p in seeded/*/patch.diff; do
  rm -rf $d/pyPRISM; cp -r /repo/pyPRISM $d/
  (cd $d && patch -p1 --dry-run -s -i "$OLDPWD/$p" >/dev/null 2>&1) || { echo "DOES NOT APPLY: $p"; rc=1; }
done
rm -rf $d; [ $rc -eq 0 ] && echo "all $(ls seeded/*/patch.diff | wc -l) seeded patches apply"; exit $rc
