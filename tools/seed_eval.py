#!/usr/bin/env python3
"""Confirm a seeded property-breaking change and run the checks against it.

  tools/seed_eval.py <PROP> <patch.diff> <demo.py> <name> [--checks C01,C05 | --all] [--tier quick] [--needs "text"]

Steps (all on a scratch copy of /repo's working tree under /dev/shm, removed afterwards; /repo is never touched):
  1. demo on the unchanged copy must exit 0 (PASS)
  2. apply the patch; the repository's own test-suite must still pass (59 tests)
  3. demo on the changed copy must exit non-zero (FAIL)
  4. run the requested checks (default: the check of <PROP>) with PVMON_REPO=<changed copy>, evidence redirected
Writes /verif/seeded/<name>/{patch.diff, demo.py, meta.json}.
"""
import argparse
import json
import os
import shutil
import subprocess
import sys
import tempfile
import time

HERE = os.path.dirname(os.path.dirname(os.path.abspath(__file__)))


def sh(cmd, cwd=None, env=None, timeout=1800):
    p = subprocess.run(cmd, cwd=cwd, env=env, stdout=subprocess.PIPE, stderr=subprocess.STDOUT, universal_newlines=True, timeout=timeout)
    return p.returncode, p.stdout


def main():
    ap = argparse.ArgumentParser()
    ap.add_argument('prop')
    ap.add_argument('patch')
    ap.add_argument('demo')
    ap.add_argument('name')
    ap.add_argument('--checks')
    ap.add_argument('--all', action='store_true')
    ap.add_argument('--tier', default='quick')
    ap.add_argument('--needs', default='')
    ap.add_argument('--what', default='')
    ap.add_argument('--skip-tests', action='store_true')
    a = ap.parse_args()
    root = tempfile.mkdtemp(prefix='seed-', dir='/dev/shm')
    dst = os.path.join(root, 'repo')
    shutil.copytree('/repo', dst, ignore=shutil.ignore_patterns('.git', 'build', '*.egg-info', '__pycache__', 'tutorial', 'docs', 'img', '*.pyc'))
    env = dict(os.environ, PYTHONPATH=dst, TREE=dst, PYTHONDONTWRITEBYTECODE='1', PYTHONWARNINGS='ignore')
    meta = {'name': a.name, 'property': a.prop, 'needs_to_manifest': a.needs, 'what_it_breaks': a.what, 'ran': []}
    try:
        d = os.path.join(HERE, 'seeded', a.name)
        os.makedirs(d, exist_ok=True)
        for src, name in ((a.patch, 'patch.diff'), (a.demo, 'demo.py')):
            if os.path.abspath(src) != os.path.join(d, name):
                shutil.copy(src, os.path.join(d, name))
        a.demo = os.path.join(d, 'demo.py')
        rc0, out0 = sh(['timeout', '300', '/venv/bin/python', os.path.abspath(a.demo)], cwd=root, env=env)
        meta['demo_unchanged'] = {'rc': rc0, 'tail': out0.strip().splitlines()[-2:]}
        meta['ran'].append('PYTHONPATH=<unchanged copy> /venv/bin/python demo.py -> rc %d' % rc0)
        rc, out = sh(['patch', '-p1', '-s', '-i', os.path.abspath(a.patch)], cwd=dst)
        if rc != 0:
            print('PATCH DOES NOT APPLY\n' + out)
            return 2
        if not a.skip_tests:
            rc, out = sh(['/venv/bin/python', '-m', 'pytest', '-q', '-p', 'no:cacheprovider', '--timeout=900'], cwd=dst, env=env)
            tail = out.strip().splitlines()[-1] if out.strip() else ''
            meta['test_suite_with_change'] = {'rc': rc, 'summary': tail}
            meta['ran'].append('cd <changed copy> && /venv/bin/python -m pytest -q -p no:cacheprovider --timeout=900 -> %s' % tail)
        rc1, out1 = sh(['timeout', '300', '/venv/bin/python', os.path.abspath(a.demo)], cwd=root, env=env)
        meta['demo_changed'] = {'rc': rc1, 'tail': out1.strip().splitlines()[-2:]}
        meta['ran'].append('PYTHONPATH=<changed copy> /venv/bin/python demo.py -> rc %d' % rc1)
        confirmed = rc0 == 0 and rc1 != 0 and (a.skip_tests or meta['test_suite_with_change']['rc'] == 0)
        meta['confirmed'] = confirmed
        print('demo unchanged rc=%d | tests: %s | demo changed rc=%d | confirmed=%s' % (rc0, meta.get('test_suite_with_change', {}).get('summary'), rc1, confirmed))
        checks = ['C%02d' % i for i in range(1, 19)] if a.all else (a.checks.split(',') if a.checks else [a.prop])
        meta['checks'] = {}
        cenv = dict(os.environ, PVMON_REPO=dst, PVMON_OUT=os.path.join(root, 'out'))
        for pid in checks:
            t0 = time.time()
            rc, out = sh([os.path.join(HERE, 'pv'), 'check', pid, '--tier', a.tier], env=cenv, timeout=3600)
            mechs = [l.strip()[len('mechanism='):].split(' :: ')[0] for l in out.splitlines() if l.strip().startswith('mechanism=')]
            status = {0: 'missed', 1: 'caught', 2: 'inconclusive', 3: 'harness-error'}.get(rc, 'rc=%d' % rc)
            meta['checks'][pid] = {'tier': a.tier, 'status': status, 'mechanisms': sorted(set(mechs))[:8], 'wall_s': round(time.time() - t0, 1)}
            print('%s %s %s %s' % (a.name, pid, status, '; '.join(sorted(set(mechs))[:4])))
            if rc == 3:
                print(out[-2000:])
        old = {}
        mp = os.path.join(d, 'meta.json')
        if os.path.exists(mp):
            old = json.load(open(mp))
            oc = old.get('checks', {})
            oc.update(meta['checks'])
            meta['checks'] = oc
            for k in ('needs_to_manifest', 'what_it_breaks'):
                if not meta[k]:
                    meta[k] = old.get(k, '')
            for k in ('test_suite_with_change', 'source'):
                if k not in meta and k in old:
                    meta[k] = old[k]
            if a.skip_tests and old.get('ran'):
                meta['ran'] = old['ran']
        json.dump(meta, open(mp, 'w'), indent=1)
        return 0
    finally:
        shutil.rmtree(root, ignore_errors=True)


if __name__ == '__main__':
    sys.exit(main())
