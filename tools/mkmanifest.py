#!/usr/bin/env python3
"""Regenerate /verif/MANIFEST.json from the table below (kept in one place so it is always valid)."""
import json, os, sys
HERE = os.path.dirname(os.path.dirname(os.path.abspath(__file__)))
BASE_OFF = "cd /repo && env -u PYPRISM_VERIF /venv/bin/python -m pytest -ra -q -p no:cacheprovider --timeout=900 --continue-on-collection-errors"
sys.path.insert(0, os.path.join(HERE, 'tools'))
from manifest_table import CHECKS, NOT_APPLICABLE, SOURCE_COMMITS
checks = []
for c in CHECKS:
    pid = c['id']
    checks.append({
        'property_id': pid,
        'quick_cmd': './pv check %s --tier quick' % pid,
        'thorough_cmd': './pv check %s --tier thorough' % pid,
        'evidence_file': 'evidence/%s.json' % pid,
        'replay_cmd_template': './pv check %s --replay {path}' % pid,
        'engine': 'pvmon',
        'level_claimed': {'category': 'exploration', 'text': c['text'], 'design_ref': c['design_ref']},
        'level_note': c['note'],
        'technique': c['technique'],
    })
m = {
    'version': 1,
    'setup_cmd': './pv setup',
    'hooks': {
        'guard': 'PYPRISM_VERIF',
        'enable': 'no source hooks: monitors wrap the real pyPRISM classes/functions from outside at import time (pvmon/checks/*.py setup()); the guard name is reserved and unused, /repo is imported from its working tree on every run (PYTHONDONTWRITEBYTECODE=1)',
        'baseline_off_cmd': BASE_OFF,
        'source_commits': SOURCE_COMMITS,
        'add_only': True,
    },
    'engines': [{'name': 'pvmon', 'path': 'pvmon/', 'serves_properties': [c['id'] for c in CHECKS],
                 'kind_free_text': 'runtime monitors: wrapped real callables, invariants at hooks, shadow reference model (pvmon/refmodel.py), paired-execution metamorphic monitors, numpy write-protection / FP traps, ASan+UBSan build of the Cython extension'}],
    'checks': checks,
    'not_applicable': NOT_APPLICABLE,
    'notes': 'All checks: ./pv check <id> --tier quick|thorough (cwd /verif, honours VERIF_SEED / VERIF_TIER). Exit 0 held, 1 VIOLATION, 2 INCONCLUSIVE (monitor saw too few events), 3 harness error. known_findings.json lists genuine defects (fixed/known).',
}
json.dump(m, open(os.path.join(HERE, 'MANIFEST.json'), 'w'), indent=1)
print('MANIFEST.json: %d checks, %d not applicable' % (len(checks), len(NOT_APPLICABLE)))
