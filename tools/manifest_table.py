SOURCE_COMMITS = []
NOTE_COMMON = ('Trusted base: CPython, numpy/scipy (pint for C17 unit parsing), IEEE doubles, the independent reference model in pvmon/refmodel.py. '
               'Held = no monitor fired on the executions listed in the evidence file; nothing is claimed about inputs that were not generated.')
LEVEL = ('Exploration is the right level: the property is a universally quantified numerical/behavioural claim over an unbounded input or history space, '
         'which observation can refute but not prove; the evidence file lists what was actually observed (cases, monitor events per hook, category histograms, worst error/tolerance ratios).')


def C(id, technique, text):
    return {'id': id, 'design_ref': 'DESIGN.md section 4 ' + id, 'technique': technique, 'text': text + ' ' + LEVEL, 'note': NOTE_COMMON}


CHECKS = [
 C('C07', 'invariant at a hook (Domain constructor + setters wrapped on the class) + dense reference-transform oracle over random setter histories',
   'Every Domain constructor/setter call in generated configuration histories is followed by a grid invariant check on the live object and a comparison with a fresh Domain; transform outputs are compared with dense sine-matrix references and round-trip/linearity bounds; MatrixArray transforms are checked pair by pair incl. the space-flag rule.'),
 C('C09', 'post-condition contract on the real closure.calculate methods + metamorphic probes (elementwise, alias, read-only replica, weak limit)',
   'Each call of every closure class is compared with the published relation evaluated by the reference model, inputs must be bit-identical afterwards; the workload sweeps gamma scale, potential kind, sigma position and flag and adds permutation/subsample/single-element, alias and weak-coupling probes.'),
 C('C10', 'post-condition contract on the real potential.calculate methods + system-level contact-rule monitor on live PRISM objects',
   'Each potential call is compared with the documented u(r); systems with sigma = m*dr for every m and noisy/offset diameters are built and the potential handed to each closure, the sigma defaulting and the contact rule are checked on the PRISM object.'),
 C('C11', 'post-condition contract on the real omega.calculate methods against the defining pair sum + sum-rule / k-independence / FP-trap probes',
   'Each omega evaluation is compared with the defining double sum evaluated term by term (tolerance 1e-7 N), sum rules, limits and k-independence are probed on log grids and real Domain k grids; DiscreteKoyama parameter validation and second moment are checked from constructor arguments.'),
 C('C12', 'outcome classification against an executable acceptance model (match -> verbatim values, mismatch -> exception by a given stage) + aliasing probe',
   'For each generated (data, k column, Domain) the model decides match/mismatch; the real FromArray/FromFile/createPRISM/cost outcome and returned values are compared with it, and the caller\'s arrays are mutated after construction.'),
 C('C13', 'post-condition contracts on every real MatrixArray operator (snapshot, per-matrix reference, np.shares_memory aliasing probe, frame condition) under random operation sequences + in-place vs out-of-place shadow run',
   'Every arithmetic call in random operator sequences (and in PRISM.cost evaluations) is checked against matrix-by-matrix numpy results, for aliasing, for the who-may-change frame condition and for the space rule.'),
 C('C14', 'history + executable dict model with unique write ids; full observable state compared after every step',
   'Random histories of set/setUnset/apply/mutate/check/iterate on real PairTable and ValueTable objects are mirrored into a dict model; every read identifies the write it observed, copy isolation is probed by identity and by mutation.'),
 C('C15', 'icontract class invariants on the real Density/Diameter classes + history model with last-write-wins',
   'icontract evaluates the derived-quantity invariant after every public method call; assignment histories with re-assignment are mirrored into a model and every derived entry is compared after each step.'),
 C('C17', 'post-condition contract on the six real conversion methods against exact-SI formulas + linearity/elementwise probes',
   'Every conversion result is expressed in its documented unit and compared with the textbook formula from exact 2019 SI constants, its dimensionality is checked, and linear/affine and elementwise behaviour is probed over converter configurations.'),
 C('C01', 'post-condition on the real solve() decided by an oracle independent of the cost function (user-level spec -> reference model: PRISM equation, per-pair closure with the reported residual, omega wiring); cost trace recorded as witness; closure contracts active during solves',
   'Random systems (rank 1-3, all shipped closures/potentials/omega models mixed per pair, several scipy root finders and initial guesses) are solved; every converged solution left on the object is checked at every wavenumber and grid distance against the reference model built from the user-level specification captured before createPRISM.'),
 C('C02', 'refinement-family monitor on the real solve+calculate pipeline against closed-form results (Wertheim-Thiele, Boltzmann factor, quadrature B2): first-order envelope, shrink-under-refinement and Richardson-limit conditions instead of absolute tolerances',
   'PY hard spheres over the fluid range and every potential x closure in the dilute limit are solved on dr, dr/2, dr/4, dr/8 at fixed r_max; contact value, S(k), S(0), c(r), g(r) and B2 are compared with exact results.'),
 C('C03', 'invariant at a hook: every closure.calculate call made while a monitored PRISM object evaluates its cost function is checked for c+gamma=-1 on the core set computed from the user inputs (registry closure instance -> pair); post-condition |g| <= residual/r on solved objects',
   'Hostile trial vectors and all solver trial steps are observed on systems with at least one hard-core pair; the core condition is asserted per evaluation and per converged solution.'),
 C('C04', 'metamorphic monitor over paired executions decided through the mapped root (cost of the reformulated system at the mapped base solution must vanish; solve from it must reproduce the mapped results)',
   'Permutations of the type list, species splits (monatomic A/A\' and symmetric diblock with exact block omegas) and energy/kT rescaling are applied to converged base systems; g, S and pmf of the pairs are compared by type name.'),
 C('C05', 'post-condition contracts on the seven real calculate functions (wrapped and rebound in every pyPRISM namespace) against definitions evaluated by the reference model from the user-level spec and a snapshot of the stored arrays',
   'Hand-populated PRISM objects of rank 1-4 with arrays in either space and converged solutions are pushed through all 11 flag combinations; chi is additionally probed for linearity and weight ratios; the S=(I-Omega C)^-1 Omega identity is checked on solved objects.'),
 C('C06', 'history + reference object: call histories over {11 calculate calls, user transforms, re-solve} on one solved object; returned values vs a fresh identically solved object, frame condition on the three stored arrays after every call, root-state check after solve; write-protected replica for the witness',
   'Every (space state, operation) pair is reached systematically and random histories up to length 16 are run; any dependence on the history, any silent rescaling of a stored array, any space-related exception and any mismatch between stored arrays and the returned root is reported.'),
 C('C08', 'refinement-family monitor: real Domain transforms of analytic functions vs closed-form 3-D radial transforms (absolute values) under first-order envelope, shrink and Richardson-limit conditions',
   'Gaussian, Yukawa, exponential and sphere-indicator functions are transformed on dr, dr/2, dr/4 (, dr/8) grids at fixed r_max; forward values at fixed k, the k->0 limit and backward values at fixed r are compared with the closed forms.'),
 C('C16', 'counters on the real PRISM.__init__/cost, structural digests of System and PRISM objects, sys.monitoring failpoints at every line of PRISM.__init__ (crash points), wiring vs reference model, edit/solve sweeps vs freshly built Systems',
   'All single/double (thorough: triple) omissions must raise ValueError before any calculation starts; createPRISM/solve must leave the System digest unchanged even when construction is aborted at any line; later System edits must not reach the object; sweeps on one System must equal fresh Systems.'),
 C('C18', 'ASan+UBSan build of the Cython extension (subprocess, halt_on_error) + chunk-partition invariant + float64 reference Debye sum under schedule diversity (nthreads x OpenMP team sizes, repeats, site permutations)',
   'The extension is rebuilt from the current Debyer.pyx (numpy shim on a scratch copy); results are compared with a float64 numpy Debye sum for many chunkings and team sizes, repeated runs must be bit-identical, and the same workload runs on a sanitized build.'),
]
CHECKS.sort(key=lambda c: c['id'])
ALL = ['C%02d' % i for i in range(1, 19)]
NOT_APPLICABLE = [{'property_id': p, 'reason': 'check not built yet (work in progress; see DESIGN.md section 8 for the order of work)'} for p in ALL if p not in [c['id'] for c in CHECKS]]
