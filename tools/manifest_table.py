SOURCE_COMMITS = []
NOTE_COMMON = 'Trusted base: numpy/scipy/CPython, IEEE doubles, the independent reference model in pvmon/refmodel.py. Held = no monitor fired on the executions listed in the evidence file; nothing is claimed about inputs not generated.'
CHECKS = [
 {'id': 'C07', 'design_ref': 'DESIGN.md section 4 C07', 'technique': 'invariant at a hook (Domain constructor + setters wrapped) + dense reference transform oracle over random setter histories',
  'text': 'Every Domain constructor/setter call in generated configuration histories is followed by a grid invariant check on the live object and a comparison with a fresh Domain; transform outputs are compared with dense sine-matrix references and round-trip/linearity bounds. Exploration over thousands of (length, spacing, history, array) cases is the right level because the property is a universally quantified numerical claim that can only be refuted by observation.',
  'note': NOTE_COMMON},
]
ALL = ['C%02d' % i for i in range(1, 19)]
NOT_APPLICABLE = [{'property_id': p, 'reason': 'check not built yet (work in progress; see DESIGN.md section 8 for the order of work)'} for p in ALL if p not in [c['id'] for c in CHECKS]]
