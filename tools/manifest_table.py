SOURCE_COMMITS = []
NOTE_COMMON = ('Trusted base: CPython, numpy/scipy (pint for C17 unit parsing), IEEE doubles, the independent reference model in pvmon/refmodel.py. '
               'Held = no monitor fired on the executions listed in the evidence file; nothing is claimed about inputs that were not generated.')
LEVEL = ('Exploration is the right level: the property is a universally quantified numerical/behavioural claim over an unbounded input or history space, '
         'which observation can refute but not prove; the evidence file lists what was actually observed (cases, monitor events per hook, category histograms, worst error/tolerance ratios).')


def C(id, technique, text):
    return {'id': id, 'design_ref': 'DESIGN.md section 4 ' + id, 'technique': technique, 'text': text + ' ' + LEVEL, 'note': NOTE_COMMON}


CHECKS = [
 C('C07', 'invariant at a hook (Domain constructor + setters wrapped on the class) + dense reference-transform oracle over random setter histories',
   'Every Domain constructor/setter call in generated configuration histories is followed by a grid invariant check on the live object and a comparison with a fresh Domain; transform outputs are compared with dense sine-matrix references and round-trip/linearity bounds; MatrixArray transforms are checked pair by pair incl. the space-flag rule.'),
 C('C09', 'post-condition contract on the real closure.calculate methods + metamorphic probes (elementwise, alias, read-only replica, weak limit)',
   'Each call of every closure class is compared with the published relation evaluated by the reference model, inputs must be bit-identical afterwards; the workload sweeps gamma scale, potential kind, sigma position and flag and adds permutation/subsample/single-element, alias and weak-coupling probes.'),
 C('C10', 'post-condition contract on the real potential.calculate methods + system-level contact-rule monitor on live PRISM objects',
   'Each potential call is compared with the documented u(r); systems with sigma = m*dr for every m and noisy/offset diameters are built and the potential handed to each closure, the sigma defaulting and the contact rule are checked on the PRISM object.'),
 C('C11', 'post-condition contract on the real omega.calculate methods against the defining pair sum + sum-rule / k-independence / FP-trap probes',
   'Each omega evaluation is compared with the defining double sum evaluated term by term (tolerance 1e-7 N), sum rules, limits and k-independence are probed on log grids and real Domain k grids; DiscreteKoyama parameter validation and second moment are checked from constructor arguments.'),
 C('C12', 'outcome classification against an executable acceptance model (match -> verbatim values, mismatch -> exception by a given stage) + aliasing probe',
   'For each generated (data, k column, Domain) the model decides match/mismatch; the real FromArray/FromFile/createPRISM/cost outcome and returned values are compared with it, and the caller\'s arrays are mutated after construction.'),
 C('C13', 'post-condition contracts on every real MatrixArray operator (snapshot, per-matrix reference, np.shares_memory aliasing probe, frame condition) under random operation sequences + in-place vs out-of-place shadow run',
   'Every arithmetic call in random operator sequences (and in PRISM.cost evaluations) is checked against matrix-by-matrix numpy results, for aliasing, for the who-may-change frame condition and for the space rule.'),
 C('C14', 'history + executable dict model with unique write ids; full observable state compared after every step',
   'Random histories of set/setUnset/apply/mutate/check/iterate on real PairTable and ValueTable objects are mirrored into a dict model; every read identifies the write it observed, copy isolation is probed by identity and by mutation.'),
 C('C15', 'icontract class invariants on the real Density/Diameter classes + history model with last-write-wins',
   'icontract evaluates the derived-quantity invariant after every public method call; assignment histories with re-assignment are mirrored into a model and every derived entry is compared after each step.'),
 C('C17', 'post-condition contract on the six real conversion methods against exact-SI formulas + linearity/elementwise probes',
   'Every conversion result is expressed in its documented unit and compared with the textbook formula from exact 2019 SI constants, its dimensionality is checked, and linear/affine and elementwise behaviour is probed over converter configurations.'),
]
ALL = ['C%02d' % i for i in range(1, 19)]
NOT_APPLICABLE = [{'property_id': p, 'reason': 'check not built yet (work in progress; see DESIGN.md section 8 for the order of work)'} for p in ALL if p not in [c['id'] for c in CHECKS]]
