#!/usr/bin/env python3
"""Which lines of pyPRISM do the registered workloads actually execute?

  tools/reach.py [quick|thorough]  -> reach.json + a table on stdout

Runs every check once with PVMON_REACH set (evidence redirected to a scratch directory, so /verif/evidence is not touched),
merges the per-worker line sets and compares them with the executable lines of every module under pyPRISM/ (from the compiled
code objects).  Import-time lines count as executed by definition of the workload (every worker imports the package).
This is a statement about REACH, not a verdict: a line that no workload executes is a line the monitors say nothing about.
"""
import json
import os
import shutil
import subprocess
import sys
import tempfile

HERE = os.path.dirname(os.path.dirname(os.path.abspath(__file__)))
REPO = os.path.realpath(os.environ.get('PVMON_REPO', '/repo'))


def executable_lines(path):
    src = open(path).read()
    code = compile(src, path, 'exec')
    lines = set()
    doc_only = set()

    def walk(c):
        for _, _, ln in c.co_lines():
            if ln is not None and ln > 0:
                lines.add(ln)
        for k in c.co_consts:
            if hasattr(k, 'co_lines'):
                walk(k)
    walk(code)
    return lines


def main():
    tier = sys.argv[1] if len(sys.argv) > 1 else 'quick'
    work = tempfile.mkdtemp(prefix='pvmon-reach-', dir='/dev/shm' if os.path.isdir('/dev/shm') else None)
    try:
        env = dict(os.environ, PVMON_REACH=os.path.join(work, 'lines'), PVMON_OUT=os.path.join(work, 'out'))
        per_check = {}
        for i in range(1, 19):
            cid = 'C%02d' % i
            p = subprocess.run([os.path.join(HERE, 'pv'), 'check', cid, '--tier', tier], env=env, stdout=subprocess.PIPE, stderr=subprocess.STDOUT, universal_newlines=True)
            print(cid, 'rc=%d' % p.returncode, file=sys.stderr)
        seen = {}
        d = os.path.join(work, 'lines')
        for fn in os.listdir(d) if os.path.isdir(d) else []:
            cid = fn.split('-')[0]
            for f, ln in json.load(open(os.path.join(d, fn))):
                seen.setdefault(f, {}).setdefault(ln, set()).add(cid)
        report = {}
        root = os.path.join(REPO, 'pyPRISM')
        for dp, dn, fns in os.walk(root):
            if os.path.basename(dp) in ('test', '__pycache__'):
                dn[:] = []
                continue
            for fn in sorted(fns):
                if not fn.endswith('.py'):
                    continue
                path = os.path.join(dp, fn)
                rel = os.path.relpath(path, root)
                ex = executable_lines(path)
                hit = set(seen.get(rel, {}))
                miss = sorted(ex - hit)
                report[rel] = {'executable': len(ex), 'executed': len(ex & hit), 'not_executed_lines': miss,
                               'checks': sorted(set(c for v in seen.get(rel, {}).values() for c in v))}
        json.dump({'tier': tier, 'tree': subprocess.check_output(['git', '-C', REPO, 'rev-parse', '--short', 'HEAD']).decode().strip(), 'files': report},
                  open(os.path.join(HERE, 'reach.json'), 'w'), indent=1)
        tot_e = sum(v['executable'] for v in report.values())
        tot_h = sum(v['executed'] for v in report.values())
        print('| file | executable lines | executed by the workloads | not executed (lines) | reached by |')
        print('|---|---|---|---|---|')
        for rel, v in sorted(report.items()):
            ml = v['not_executed_lines']
            txt = ', '.join(map(str, ml[:14])) + (' ... (%d)' % len(ml) if len(ml) > 14 else '')
            print('| %s | %d | %d | %s | %s |' % (rel, v['executable'], v['executed'], txt or '-', ' '.join(v['checks']) or '-'))
        print('\ntotal: %d of %d executable lines (%.1f %%) executed by the %s tier workloads' % (tot_h, tot_e, 100.0 * tot_h / max(tot_e, 1), tier))
    finally:
        shutil.rmtree(work, ignore_errors=True)


if __name__ == '__main__':
    main()
