#!/bin/bash
# run every check once (tier = $1, default quick) and summarise; evidence is rewritten by each check
cd "$(dirname "$0")/.."
tier=${1:-quick}
rc_all=0
for i in $(seq -w 1 18); do
  out=$(./pv check C$i --tier $tier 2>&1); rc=$?
  echo "$out" | grep -E "^C$i |VIOLATION|INCONCLUSIVE|HARNESS" | cut -c1-220
  [ $rc -ne 0 ] && rc_all=1 && echo "  -> rc=$rc"
done
exit $rc_all
